import AmrK.WritersGeneric
/-! Probe: writers that visit the boxes of a file in *offset* order (chef, chk2plt) — same data
    theorem, for any per-file visiting order that lists each box of the file exactly once. -/
namespace Writers
open Col

def ordEntry (boxes : List InBox) (ord : String → List Nat) (recF : Nat → Option OutRec) (f : String) :
    String × List Nat × List OutRec :=
  (f, ord f, (ord f).filterMap recF)

/-- a visiting order: exactly the boxes of the file, each once -/
structure GoodOrder (boxes : List InBox) (ord : String → List Nat) : Prop where
  mem : ∀ f i, i ∈ ord f ↔ ∃ b, boxes[i]? = some b ∧ b.file = f
  nodup : ∀ f, (ord f).Nodup

theorem assemble_data_ord (boxes : List InBox) (ord : String → List Nat) (hord : GoodOrder boxes ord)
    (recF : Nat → Option OutRec)
    (hrec : ∀ k, k < boxes.length → ∃ r, recF k = some r ∧ r.box = k)
    (hsize : ∀ k r, recF k = some r → 0 < r.size)
    (i : Nat) (b : InBox) (hb : boxes[i]? = some b) :
    ∃ ob r, (assemble boxes ((unique (boxes.map (·.file))).map (ordEntry boxes ord recF)))[i]? = some ob ∧
      ob.file = b.file ∧ recF i = some r ∧ ob.found = some (i, r.comps) := by
  have hi : i < boxes.length := by
    rcases Nat.lt_or_ge i boxes.length with h | h
    · exact h
    · rw [List.getElem?_eq_none h] at hb; cases hb
  obtain ⟨ri, hri, hribox⟩ := hrec i hi
  unfold assemble
  simp only [List.getElem?_map, List.getElem?_range hi, Option.map_some, hb, Option.getD_some]
  refine ⟨_, ri, rfl, rfl, hri, ?_⟩
  let I := ord b.file
  let R := I.filterMap recF
  have hmemI : i ∈ I := (hord.mem b.file i).mpr ⟨b, hb, rfl⟩
  obtain ⟨j, hj⟩ := List.getElem?_of_mem hmemI
  have hlt : ∀ k ∈ I, k < boxes.length := by
    intro k hk
    obtain ⟨bk, hbk, _⟩ := (hord.mem b.file k).mp hk
    rcases Nat.lt_or_ge k boxes.length with h | h
    · exact h
    · rw [List.getElem?_eq_none h] at hbk; cases hbk
  have hRmap : R = I.map fun k => (recF k).getD ⟨0, [], 0⟩ := by
    apply filterMap_all_some
    intro k hk
    obtain ⟨r, hr, _⟩ := hrec k (hlt k hk)
    simp [hr]
  have hRj : R[j]? = some ri := by
    rw [hRmap, List.getElem?_map, hj]; simp [hri]
  have hlenT : (tellsOf R).length = I.length := by
    unfold tellsOf; rw [tellsGo_length, hRmap, List.length_map]
  have hjlt : j < I.length := by
    rcases Nat.lt_or_ge j I.length with h | h
    · exact h
    · rw [List.getElem?_eq_none h] at hj; cases hj
  obtain ⟨o, ho⟩ : ∃ o, (tellsOf R)[j]? = some o :=
    ⟨(tellsOf R)[j]'(by omega), List.getElem?_eq_getElem (by omega)⟩
  have hRpos : ∀ r ∈ R, 0 < r.size := by
    intro r hr
    obtain ⟨k, _, hk⟩ := List.mem_filterMap.mp hr
    exact hsize k r hk
  have hfile : b.file ∈ unique (boxes.map (·.file)) :=
    (mem_unique _ _).mpr (List.mem_map.mpr ⟨b, List.mem_of_getElem? hb, rfl⟩)
  have hsame : ∀ e ∈ (unique (boxes.map (·.file))).map (ordEntry boxes ord recF),
      i ∈ e.2.1 → e.2.1 = I ∧ tellsOf e.2.2 = tellsOf R := by
    intro e he hie
    obtain ⟨f, _, rfl⟩ := List.mem_map.mp he
    simp only [ordEntry] at hie ⊢
    obtain ⟨b', hb', hf'⟩ := (hord.mem f i).mp hie
    rw [hb] at hb'; cases hb'
    subst hf'
    exact ⟨rfl, rfl⟩
  have hex : ∃ e ∈ (unique (boxes.map (·.file))).map (ordEntry boxes ord recF), i ∈ e.2.1 :=
    ⟨ordEntry boxes ord recF b.file, List.mem_map.mpr ⟨b.file, hfile, rfl⟩, hmemI⟩
  have hmapped := foldl_scatter ((unique (boxes.map (·.file))).map (ordEntry boxes ord recF))
    (fun _ => none) I (tellsOf R) i j o (hord.nodup b.file) hj ho hsame
  simp only [hex, if_true] at hmapped
  have hfind : (((unique (boxes.map (·.file))).map (ordEntry boxes ord recF)).find? (·.1 == b.file))
      = some (ordEntry boxes ord recF b.file) := by
    cases hf : ((unique (boxes.map (·.file))).map (ordEntry boxes ord recF)).find? (·.1 == b.file) with
    | none =>
      have := List.find?_eq_none.mp hf (ordEntry boxes ord recF b.file) (List.mem_map.mpr ⟨b.file, hfile, rfl⟩)
      simp [ordEntry] at this
    | some e =>
      have h1 := List.find?_some hf
      obtain ⟨f, _, rfl⟩ := List.mem_map.mp (List.mem_of_find?_eq_some hf)
      simp only [ordEntry, beq_iff_eq] at h1
      subst h1; rfl
  simp only [hmapped, Option.getD_some, hfind, Option.map_some, ordEntry]
  rw [recAtOf_tells R hRpos j o ho, hRj]
  simp [hribox]

/-! ### offset order (`bf_indexes[np.argsort(offsets)]`) is a good order -/

def insertBy (key : Nat → Nat) (i : Nat) : List Nat → List Nat
  | [] => [i]
  | x :: xs => if key i < key x then i :: x :: xs else x :: insertBy key i xs

def sortBy (key : Nat → Nat) (l : List Nat) : List Nat := l.foldl (fun acc i => insertBy key i acc) []

theorem mem_insertBy (key : Nat → Nat) (i x : Nat) (l : List Nat) : x ∈ insertBy key i l ↔ x = i ∨ x ∈ l := by
  induction l with
  | nil => simp [insertBy]
  | cons y l ih =>
    unfold insertBy
    split
    · simp
    · simp only [List.mem_cons, ih]
      constructor
      · rintro (h | h | h) <;> simp [h]
      · rintro (h | h | h) <;> simp [h]

theorem nodup_insertBy (key : Nat → Nat) (i : Nat) (l : List Nat) (hl : l.Nodup) (hi : i ∉ l) :
    (insertBy key i l).Nodup := by
  induction l with
  | nil => simp [insertBy]
  | cons y l ih =>
    unfold insertBy
    have hy := List.nodup_cons.mp hl
    split
    · exact List.nodup_cons.mpr ⟨hi, hl⟩
    · apply List.nodup_cons.mpr
      refine ⟨?_, ih hy.2 (fun h => hi (List.mem_cons_of_mem _ h))⟩
      intro hm
      rcases (mem_insertBy key i y l).mp hm with h | h
      · exact hi (by simp [h])
      · exact hy.1 h

theorem sortBy_spec (key : Nat → Nat) (l : List Nat) (hl : l.Nodup) :
    (∀ x, x ∈ sortBy key l ↔ x ∈ l) ∧ (sortBy key l).Nodup := by
  unfold sortBy
  have key' : ∀ (l acc : List Nat), (acc ++ l).Nodup →
      (∀ x, x ∈ l.foldl (fun acc i => insertBy key i acc) acc ↔ x ∈ acc ∨ x ∈ l) ∧
      (l.foldl (fun acc i => insertBy key i acc) acc).Nodup := by
    intro l
    induction l with
    | nil => intro acc h; simpa using h
    | cons y l ih =>
      intro acc h
      simp only [List.foldl_cons]
      have hnd : (acc ++ y :: l).Nodup := h
      have hy : y ∉ acc := by
        intro hm
        have := List.nodup_append.mp hnd
        exact this.2.2 y hm y (by simp) rfl
      have hacc : acc.Nodup := (List.nodup_append.mp hnd).1
      have h2 : (insertBy key y acc ++ l).Nodup := by
        apply List.nodup_append.mpr
        refine ⟨nodup_insertBy key y acc hacc hy, ?_, ?_⟩
        · exact (List.nodup_cons.mp (List.nodup_append.mp hnd).2.1).2
        · intro a ha b hb e
          subst e
          rcases (mem_insertBy key y a acc).mp ha with h3 | h3
          · subst h3
            exact (List.nodup_cons.mp (List.nodup_append.mp hnd).2.1).1 hb
          · exact (List.nodup_append.mp hnd).2.2 a h3 a (by simp [hb]) rfl
      obtain ⟨h3, h4⟩ := ih (insertBy key y acc) h2
      refine ⟨?_, h4⟩
      intro x
      rw [h3 x, mem_insertBy]
      simp only [List.mem_cons]
      constructor
      · rintro ((h | h) | h) <;> simp [h]
      · rintro (h | h | h) <;> simp [h]
  have := key' l [] (by simpa using hl)
  simpa using this

/-- chef and chk2plt visit the boxes of a file sorted by their byte offsets -/
def offsetOrder (boxes : List InBox) (f : String) : List Nat :=
  sortBy (fun i => (boxes[i]?.map (·.offset)).getD 0) (idxsOf boxes f)

theorem goodOrder_offset (boxes : List InBox) : GoodOrder boxes (offsetOrder boxes) := by
  constructor
  · intro f i
    unfold offsetOrder
    rw [(sortBy_spec _ _ (nodup_idxsOf boxes f)).1 i, mem_idxsOf]
  · intro f
    exact (sortBy_spec _ _ (nodup_idxsOf boxes f)).2

end Writers
