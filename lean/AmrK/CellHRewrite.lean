
import AmrK.CanonDefs
/-! How colander derives the level header (`Cell_H`) of its output from the input's (`Colander.update_cell_header`): a
    line-by-line rewrite - field count replaced, index ranges copied, the offset of every `FabOnDisk:` line replaced,
    every min / max row cut down to the kept columns.  Core-only (run by the driver and compared byte for byte with
    every `Cell_H` colander writes).  `none` = a Python exception or an input that ends early. -/
namespace CellHRewrite
open Py

def fabTag : Bytes := "FabOnDisk:".toUTF8.toList

/-- `pat in s` -/
def containsSub (pat : Bytes) : Bytes → Bool
  | [] => pat.isPrefixOf []
  | b :: rest => pat.isPrefixOf (b :: rest) || containsSub pat rest

/-- `' '.join(l.split()[:-1] + [str(off)])` -/
def replaceLast (line : Bytes) (off : Nat) : Bytes := joinSep 32 ((splitWs line).dropLast ++ [natBytes off])

/-- `''.join(v + ',' for v in vals)` -/
def rowText (vals : List Bytes) : Bytes := (vals.map (· ++ [44])).flatten

/-- one min / max row: `line.split(',')[:-1]` indexed with the kept columns (an index out of range raises) -/
def restrictRow (kept : List Nat) (line : Bytes) : Option Bytes :=
  let toks := (splitOn 44 line).dropLast
  if kept.all (· < toks.length) then some (rowText (kept.map (toks.getD · []))) else none

/-- the `while True` loop: copy lines up to the first `FabOnDisk:` line, whose offset is replaced -/
def copyUntilFab (off0 : Nat) : List Bytes → Option (List Bytes × List Bytes)
  | [] => none
  | l :: rest =>
    if containsSub fabTag l then some ([replaceLast l off0], rest)
    else (copyUntilFab off0 rest).map fun (w, r) => (l :: w, r)

/-- the remaining `FabOnDisk:` lines, one per further offset -/
def rewriteOffs : List Nat → List Bytes → Option (List Bytes × List Bytes)
  | [], rest => some ([], rest)
  | _ :: _, [] => none
  | o :: os, l :: rest => (rewriteOffs os rest).map fun (w, r) => (replaceLast l o :: w, r)

def restrictRows (kept : List Nat) : Nat → List Bytes → Option (List Bytes × List Bytes)
  | 0, rest => some ([], rest)
  | _ + 1, [] => none
  | k + 1, l :: rest => do
    let row ← restrictRow kept l
    let (w, r) ← restrictRows kept k rest
    pure (row :: w, r)

/-- a blank line, the count line `N,nf`, `N` rows -/
def rewriteTable (nkept : Nat) (kept : List Nat) : List Bytes → Option (List Bytes × List Bytes)
  | blank :: cnt :: rest =>
    match splitOn 44 cnt with
    | [n, _] =>
      match pyInt n with
      | some k => (restrictRows kept k.toNat rest).map fun (w, r) => (blank :: (n ++ 44 :: natBytes nkept) :: w, r)
      | none => none
    | _ => none
  | _ => none

def rewriteLines (kept : List Nat) (offs : List Nat) (lines : List Bytes) : Option (List Bytes) :=
  match lines, offs with
  | l0 :: l1 :: _ :: rest, o0 :: os => do
    let (w1, r1) ← copyUntilFab o0 rest
    let (w2, r2) ← rewriteOffs os r1
    let (w3, r3) ← rewriteTable kept.length kept r2
    let (w4, _) ← rewriteTable kept.length kept r3
    pure (l0 :: l1 :: natBytes kept.length :: (w1 ++ (w2 ++ (w3 ++ w4))))
  | _, _ => none

/-- the output file: every line ended by a newline -/
def rewrite (kept : List Nat) (offs : List Nat) (text : Bytes) : Option Bytes :=
  (rewriteLines kept offs (splitOn 10 text)).map fun ls => (ls.map (· ++ [10])).flatten

end CellHRewrite

/-! ### combine (`rewrite_level_header`): the first input's level header is rewritten as above while the second one is
    read in lockstep; every min / max row is the picked columns of the first input's row followed by the picked columns
    of the second input's row -/
namespace CellHRewrite
open Py

/-- `np.array(line.split(',')[:-1])[indices]` -/
def pick (kept : List Nat) (line : Bytes) : Option (List Bytes) :=
  let toks := (splitOn 44 line).dropLast
  if kept.all (· < toks.length) then some (kept.map (toks.getD · [])) else none

/-- `','.join(vals) + ','` -/
def rowText2 (vals : List Bytes) : Bytes := joinSep 44 vals ++ [44]

def combineRows (k1 k2 : List Nat) : Nat → List Bytes → List Bytes → Option (List Bytes × List Bytes × List Bytes)
  | 0, r1, r2 => some ([], r1, r2)
  | k + 1, l1 :: r1, l2 :: r2 => do
    let a ← pick k1 l1
    let b ← pick k2 l2
    let (w, x, y) ← combineRows k1 k2 k r1 r2
    pure (rowText2 (a ++ b) :: w, x, y)
  | _ + 1, _, _ => none

def combineTable (nf : Nat) (k1 k2 : List Nat) : List Bytes → List Bytes → Option (List Bytes × List Bytes × List Bytes)
  | blank :: cnt :: r1, _ :: _ :: r2 =>
    match splitOn 44 cnt with
    | [n, _] =>
      match pyInt n with
      | some k => (combineRows k1 k2 k.toNat r1 r2).map fun (w, x, y) => (blank :: (n ++ 44 :: natBytes nf) :: w, x, y)
      | none => none
    | _ => none
  | _, _ => none

def combineLines (nf : Nat) (k1 k2 : List Nat) (offs : List Nat) (lines1 lines2 : List Bytes) : Option (List Bytes) :=
  match lines1, offs with
  | l0 :: l1 :: _ :: rest, o0 :: os => do
    let (w1, r1) ← copyUntilFab o0 rest
    let (w2, r2) ← rewriteOffs os r1
    -- the second header has been advanced by as many lines as the first
    let s2 := lines2.drop (lines1.length - r2.length)
    let (w3, r3, s3) ← combineTable nf k1 k2 r2 s2
    let (w4, _, _) ← combineTable nf k1 k2 r3 s3
    pure (l0 :: l1 :: natBytes nf :: (w1 ++ (w2 ++ (w3 ++ w4))))
  | _, _ => none

def combine (nf : Nat) (k1 k2 : List Nat) (offs : List Nat) (text1 text2 : Bytes) : Option Bytes :=
  (combineLines nf k1 k2 offs (splitOn 10 text1) (splitOn 10 text2)).map fun ls => (ls.map (· ++ [10])).flatten

end CellHRewrite
