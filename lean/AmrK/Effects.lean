/-! C13: effects model of a tool run.  A run is a sequence of write-side effects (mkdir, open for
    write, write), some of them inside `try` blocks.  A block *swallows* when one of its handlers
    catches `OSError` (or broader) without re-raising.  An injected I/O fault at the `k`-th effect
    raises there; it propagates to the caller unless it happens inside a swallowing block, in which
    case the rest of that block is skipped and the run continues. -/
namespace Effects

inductive Outcome where
  | returned
  | raised
deriving DecidableEq, Repr

structure Item where
  effects : Nat          -- number of write-side effects in this straight-line stretch
  swallows : Bool        -- the stretch is the body of a try block that swallows I/O errors
deriving Repr

/-- total number of write-side effects of the run without faults -/
def total : List Item → Nat
  | [] => 0
  | it :: rest => it.effects + total rest

/-- outcome of the run when the `k`-th write-side effect (0-based, in program order) fails -/
def exec : List Item → Nat → Outcome
  | [], _ => .returned
  | it :: rest, k =>
    if k < it.effects then (if it.swallows then .returned else .raised)
    else exec rest (k - it.effects)

/-- no write-side effect sits inside a swallowing try block -/
def NoSwallow (prog : List Item) : Prop := ∀ it ∈ prog, it.swallows = true → it.effects = 0

/-- **A fault at any write-side call of the run surfaces as an exception** when no write-side call
    sits inside a swallowing `try` block. -/
theorem fault_propagates (prog : List Item) (h : NoSwallow prog) (k : Nat) (hk : k < total prog) :
    exec prog k = .raised := by
  induction prog generalizing k with
  | nil => simp [total] at hk
  | cons it rest ih =>
    unfold exec
    by_cases hlt : k < it.effects
    · rw [if_pos hlt]
      cases hs : it.swallows with
      | false => rfl
      | true =>
        have := h it (by simp) hs
        omega
    · rw [if_neg hlt]
      apply ih (fun it' hit' => h it' (by simp [hit']))
      simp only [total] at hk
      omega

/-- conversely a write inside a swallowing block makes some fault return normally (the seeded
    change C13-B) -/
theorem swallow_returns (pre : List Item) (n : Nat) (hn : 0 < n) (post : List Item) (hpre : NoSwallow pre) :
    exec (pre ++ ⟨n, true⟩ :: post) (total pre) = .returned := by
  induction pre with
  | nil => simp [exec, total, hn]
  | cons it rest ih =>
    simp only [List.cons_append, exec, total]
    have hrest : NoSwallow rest := fun it' hit' => hpre it' (by simp [hit'])
    by_cases hz : it.effects = 0
    · simp [hz, ih hrest]
    · have hs : it.swallows = false := by
        cases h : it.swallows with
        | false => rfl
        | true => exact absurd (hpre it (by simp) h) hz
      have : ¬ (it.effects + total rest < it.effects) := by omega
      rw [if_neg this]
      have : it.effects + total rest - it.effects = total rest := by omega
      rw [this]; exact ih hrest

end Effects
