/-! Executable model of `LevelDataSelector.__call__` up to the interpolation call: box matching on
    every level, the CASE 1 decision with its assertions, point-to-index conversion (C19).
    Core Lean only (used by the driver); the theorems are in `Point.lean`. -/
namespace Point

/-- repaired: `((point - origin) / dx) - 0.5` -/
def pointIdxR (g dx p : Rat) : Rat := (p - g) / dx - 1/2
/-- pinned: `(point / dx) - 0.5` -/
def pointIdxP (dx p : Rat) : Rat := p / dx - 1/2

structure PLevel where
  dx : List Rat
  boxes : List (List (Rat × Rat))      -- physical bounds per box, per dimension
  idxLo : List (List Int)              -- low index of each box
deriving Repr

def matchBox (pad : Rat → Rat) (dx : List Rat) (box : List (Rat × Rat)) (p : List Rat) : Bool :=
  (List.zip (List.zip box dx) p).all fun ((b, d), x) => b.1 + pad d ≤ x && x ≤ b.2 - pad d

def matchList (pad : Rat → Rat) (l : PLevel) (p : List Rat) : List Nat :=
  (List.range l.boxes.length).filter fun i => matchBox pad l.dx (l.boxes.getD i []) p

/-- last level with a non-empty match list -/
def lastLevel (ms : List (List Nat)) : Option Nat :=
  ((List.range ms.length).reverse).find? fun l => !(ms.getD l []).isEmpty

inductive Res where
  | refused (why : String)
  | case1 (level box : Nat) (loc : List Rat)
  | case2
deriving Repr, DecidableEq

def query (g : List Rat) (levels : List PLevel) (p : List Rat) : Res :=
  let exact := levels.map fun l => matchList (fun _ => 0) l p
  let inner := levels.map fun l => matchList (fun d => d / 2) l p
  let outer := levels.map fun l => matchList (fun d => -(d / 2)) l p
  match lastLevel exact with
  | none => .refused "no box contains the point"
  | some le =>
    match lastLevel outer with
    | none => .refused "no outer match"
    | some lo =>
      if lastLevel inner = some le then
        let li := le
        if (inner.getD li []).length ≠ 1 then .refused "assert inner" else
        if li ≠ lo then .refused "assert levels" else
        if (exact.getD le []).length ≠ 1 then .refused "assert exact" else
        if (outer.getD lo []).length ≠ 1 then .refused "assert outer" else
        let b := (inner.getD li []).headD 0
        let lv := levels.getD li ⟨[], [], []⟩
        let idx := List.zipWith (fun (gd : Rat × Rat) x => pointIdxR gd.1 gd.2 x) (List.zip g lv.dx) p
        .case1 li b (List.zipWith (fun i (l : Int) => i - (l : Rat)) idx (lv.idxLo.getD b []))
      else .case2

end Point
