import AmrK.ChkHeader
/-! What the checkpoint-header reading guarantees: the level-0 grid size is the largest upper index plus one in every
    direction - whatever the order of the box list -, the time is the token of the fourth line exactly when that token is
    not integral-valued, and (the known finding) an integral-valued time sends the whole reading one line down. -/
namespace ChkHeader
open Py

/-- entry `k` of an index vector -/
def at' (l : List Int) (k : Nat) : Int := l[k]?.getD 0

theorem zipWith_max_length (a b : List Int) (h : a.length = b.length) : (List.zipWith max a b).length = a.length := by
  simp [List.length_zipWith, h]

theorem zipWith_max_at (a b : List Int) (k : Nat) (hk : k < a.length) (h : a.length = b.length) :
    at' (List.zipWith max a b) k = max (at' a k) (at' b k) := by
  unfold at'
  rw [List.getElem?_zipWith]
  rw [List.getElem?_eq_getElem hk, List.getElem?_eq_getElem (by omega : k < b.length)]
  rfl

/-- the running maximum over index vectors of one length: it keeps the length, dominates the start and every vector met,
    and each of its entries is an entry of the start or of one of the vectors -/
theorem foldl_max_spec (d : Nat) (xs : List (List Int)) (acc : List Int) (hacc : acc.length = d)
    (hxs : ∀ x ∈ xs, x.length = d) :
    let r := xs.foldl (fun a x => List.zipWith max a x) acc
    r.length = d ∧ ∀ k, k < d →
      at' acc k ≤ at' r k ∧ (∀ x ∈ xs, at' x k ≤ at' r k) ∧ (at' r k = at' acc k ∨ ∃ x ∈ xs, at' r k = at' x k) := by
  induction xs generalizing acc with
  | nil =>
    simp only [List.foldl_nil]
    exact ⟨hacc, fun k _ => ⟨Int.le_refl _, fun x hx => (by cases hx), Or.inl trivial⟩⟩
  | cons x xs ih =>
    have hx : x.length = d := hxs x List.mem_cons_self
    have hlen : (List.zipWith max acc x).length = d := by rw [zipWith_max_length acc x (by omega)]; exact hacc
    obtain ⟨h1, h2⟩ := ih (List.zipWith max acc x) hlen (fun y hy => hxs y (List.mem_cons_of_mem _ hy))
    simp only [List.foldl_cons]
    refine ⟨h1, fun k hk => ?_⟩
    obtain ⟨a1, a2, a3⟩ := h2 k hk
    have hz := zipWith_max_at acc x k (by omega) (by omega)
    rw [hz] at a1 a3
    refine ⟨by omega, ?_, ?_⟩
    · intro y hy
      rcases List.mem_cons.mp hy with e | e
      · subst e; omega
      · exact a2 y e
    · rcases a3 with e | ⟨y, hy, e⟩
      · rcases Int.le_total (at' acc k) (at' x k) with c | c
        · right; exact ⟨x, List.mem_cons_self, by rw [e]; omega⟩
        · left; rw [e]; omega
      · right; exact ⟨y, List.mem_cons_of_mem _ hy, e⟩

/-- **the level-0 grid size is, in every direction, the largest upper index plus one** - at least every box's upper index
    plus one, and reached by some box; hence it does not depend on the order in which the checkpoint lists its boxes -/
theorem gridSize0_spec (d : Nat) (boxes : List (List Int × List Int)) (hne : boxes ≠ [])
    (hd : ∀ b ∈ boxes, b.2.length = d) :
    ∃ g, gridSize0 boxes = some g ∧ g.length = d ∧ ∀ k, k < d →
      (∀ b ∈ boxes, at' b.2 k + 1 ≤ at' g k) ∧ ∃ b ∈ boxes, at' g k = at' b.2 k + 1 := by
  cases boxes with
  | nil => exact absurd rfl hne
  | cons b bs =>
    have hb : b.2.length = d := hd b List.mem_cons_self
    have key := foldl_max_spec d (bs.map (·.2)) b.2 hb (by
      intro x hx; obtain ⟨y, hy, rfl⟩ := List.mem_map.mp hx; exact hd y (List.mem_cons_of_mem _ hy))
    simp only at key
    obtain ⟨h1, h2⟩ := key
    have hfold : bs.foldl (fun acc x => List.zipWith max acc x.2) b.2
        = (bs.map (·.2)).foldl (fun a x => List.zipWith max a x) b.2 := by
      rw [List.foldl_map]
    refine ⟨_, rfl, by simp [hfold, h1], ?_⟩
    intro k hk
    obtain ⟨a1, a2, a3⟩ := h2 k hk
    have hat : ∀ l : List Int, k < l.length → at' (l.map (· + 1)) k = at' l k + 1 := by
      intro l hl
      unfold at'
      rw [List.getElem?_map, List.getElem?_eq_getElem hl]; rfl
    rw [hfold, hat _ (by omega)]
    refine ⟨?_, ?_⟩
    · intro c hc
      rcases List.mem_cons.mp hc with e | e
      · subst e; omega
      · have := a2 c.2 (List.mem_map.mpr ⟨c, e, rfl⟩); omega
    · rcases a3 with e | ⟨y, hy, e⟩
      · exact ⟨b, List.mem_cons_self, by omega⟩
      · obtain ⟨c, hc, rfl⟩ := List.mem_map.mp hy
        exact ⟨c, List.mem_cons_of_mem _ hc, by omega⟩

/-- two listings of the same boxes give the same grid size -/
theorem gridSize0_order_independent (d : Nat) (b1 b2 : List (List Int × List Int)) (hne : b1 ≠ [])
    (hmem : ∀ b, b ∈ b1 ↔ b ∈ b2) (hd : ∀ b ∈ b1, b.2.length = d) : gridSize0 b1 = gridSize0 b2 := by
  have hne2 : b2 ≠ [] := by
    cases b1 with
    | nil => exact absurd rfl hne
    | cons x _ =>
      intro h
      have hx := (hmem x).mp List.mem_cons_self
      rw [h] at hx
      cases hx
  have hd2 : ∀ b ∈ b2, b.2.length = d := fun b hb => hd b ((hmem b).mpr hb)
  obtain ⟨g1, e1, l1, s1⟩ := gridSize0_spec d b1 hne hd
  obtain ⟨g2, e2, l2, s2⟩ := gridSize0_spec d b2 hne2 hd2
  rw [e1, e2]
  congr 1
  apply List.ext_getElem?
  intro k
  by_cases hk : k < d
  · obtain ⟨u1, c1, hc1, v1⟩ := s1 k hk
    obtain ⟨u2, c2, hc2, v2⟩ := s2 k hk
    have a := u1 c2 ((hmem c2).mpr hc2)
    have b := u2 c1 ((hmem c1).mp hc1)
    have : at' g1 k = at' g2 k := by omega
    unfold at' at this
    rw [List.getElem?_eq_getElem (by omega), List.getElem?_eq_getElem (by omega)] at this ⊢
    simpa using this
  · rw [List.getElem?_eq_none (by omega), List.getElem?_eq_none (by omega)]

/-! ### the time line -/

theorem tail_time (m st : Int) (t : Bytes) (rest : List Bytes) (P : Parsed) (h : tail m st t rest = some P) : P.time = t := by
  unfold tail at h
  split at h
  · split at h
    · cases h
    · split at h
      · cases h
      · split at h
        · cases h
        · cases h; rfl
  · cases h

/-- **the time the reading reports**: the fourth line's token when its value is not integral; the FIFTH line's when it is
    (and everything after is read one line further down) -/
theorem time_rule (v l1 l2 l3 : Bytes) (rest : List Bytes) (P : Parsed) (h : parse (v :: l1 :: l2 :: l3 :: rest) = some P) :
    (integral l3 = false → P.time = strip l3) ∧ (integral l3 = true → ∃ t r, rest = t :: r ∧ P.time = strip t) := by
  unfold parse at h
  simp only at h
  split at h
  · rename_i m st t r _ _ ht
    have hP := tail_time m st t r P h
    unfold timeOf at ht
    split at ht
    · cases ht
    · split at ht
      · rename_i hi
        refine ⟨fun c => (by rw [hi] at c; cases c), fun _ => ?_⟩
        split at ht
        · rename_i t' r'
          split at ht
          · simp at ht; exact ⟨t', r', rfl, by rw [hP, ← ht.1]⟩
          · cases ht
        · cases ht
      · rename_i hi
        have hi' : integral l3 = false := by simpa using hi
        refine ⟨fun _ => ?_, fun c => (by rw [hi'] at c; cases c)⟩
        simp at ht; rw [hP, ← ht.1]
  · cases h

end ChkHeader
