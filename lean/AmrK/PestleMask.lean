import AmrK.Pestle
import AmrK.PestleLemmas
/-! Probe: pestle's covering mask is exactly "not covered by the next level", in three dimensions
    (C09 core), for any even occupancy resolution to which all faces are aligned. -/
namespace Pestle

/-- `box_array[e] ≠ -1` iff some box's coarse footprint contains `e` -/
theorem boxArrayAt_ne (boxes : List Box) (r : Nat) (e : List Nat) :
    boxArrayAt boxes r e ≠ -1 ↔
      ∃ b ∈ boxes, ((List.zip (List.zip b.lo b.hi) e).all fun ((l, h), x) => l / r ≤ x && x ≤ h / r) = true := by
  unfold boxArrayAt
  -- generalise the fold: indices are natural numbers, so a hit never yields -1
  have key : ∀ (l : List (Nat × Box)) (acc : Int), (acc = -1 ∨ 0 ≤ acc) →
      (let res := l.foldl (fun acc (p : Nat × Box) =>
          if ((List.zip (List.zip p.2.lo p.2.hi) e).all fun ((l, h), x) => l / r ≤ x && x ≤ h / r) then (p.1 : Int) else acc) acc
       (res = -1 ∨ 0 ≤ res) ∧
       (res ≠ -1 ↔ acc ≠ -1 ∨ ∃ p ∈ l,
          ((List.zip (List.zip p.2.lo p.2.hi) e).all fun ((l, h), x) => l / r ≤ x && x ≤ h / r) = true)) := by
    intro l
    induction l with
    | nil => intro acc h; simp [h]
    | cons p l ih =>
      intro acc hacc
      simp only [List.foldl_cons]
      by_cases hp : ((List.zip (List.zip p.2.lo p.2.hi) e).all fun ((l, h), x) => l / r ≤ x && x ≤ h / r) = true
      · simp only [hp, if_true]
        obtain ⟨h1, h2⟩ := ih (p.1 : Int) (Or.inr (by omega))
        refine ⟨h1, ?_⟩
        rw [h2]
        constructor
        · intro _; right; exact ⟨p, by simp, hp⟩
        · intro _; left; omega
      · simp only [hp, Bool.false_eq_true, if_false]
        obtain ⟨h1, h2⟩ := ih acc hacc
        refine ⟨h1, ?_⟩
        rw [h2]
        constructor
        · rintro (h | ⟨q, hq, hh⟩)
          · left; exact h
          · right; exact ⟨q, by simp [hq], hh⟩
        · rintro (h | ⟨q, hq, hh⟩)
          · left; exact h
          · rcases List.mem_cons.mp hq with rfl | hq
            · exact absurd hh hp
            · right; exact ⟨q, hq, hh⟩
  have := (key (List.zip (List.range boxes.length) boxes) (-1) (Or.inl rfl)).2
  simp only [ne_eq, not_true_eq_false, false_or] at this
  refine Iff.trans this ?_
  constructor
  · rintro ⟨p, hp, hh⟩
    exact ⟨p.2, (List.of_mem_zip hp).2, hh⟩
  · rintro ⟨b, hb, hh⟩
    obtain ⟨i, hi⟩ := List.getElem?_of_mem hb
    have hil : i < boxes.length := by
      rcases Nat.lt_or_ge i boxes.length with h | h
      · exact h
      · rw [List.getElem?_eq_none h] at hi; cases hi
    refine ⟨(i, b), ?_, hh⟩
    apply List.mem_iff_getElem?.mpr
    refine ⟨i, ?_⟩
    rw [List.getElem?_zip_eq_some]
    exact ⟨by simp [List.getElem?_range hil], hi⟩

end Pestle

namespace Pestle

theorem mem_cells3 (s0 s1 s2 : Nat) (c : List Nat) (hc : c ∈ cells [s0, s1, s2]) :
    ∃ c0 c1 c2, c = [c0, c1, c2] ∧ c0 < s0 ∧ c1 < s1 ∧ c2 < s2 := by
  simp only [cells, List.mem_flatMap, List.mem_map, List.mem_range, List.mem_singleton] at hc
  obtain ⟨t1, ⟨t2, ⟨t3, rfl, c2, hc2, rfl⟩, c1, hc1, rfl⟩, c0, hc0, rfl⟩ := hc
  exact ⟨c0, c1, c2, rfl, hc0, hc1, hc2⟩

/-- the last occupancy entry touched by an aligned box lies inside the occupancy map -/
theorem end_in_map (r h g : Nat) (hr : 0 < r) (hh : (2 * h + 2) % r = 0) (hin : 2 * h + 2 ≤ g) :
    (2 * h) / r + 1 ≤ g / r := by
  obtain ⟨q, hq⟩ : ∃ q, 2 * h + 2 = r * q := ⟨(2 * h + 2) / r, by have := Nat.div_add_mod (2 * h + 2) r; omega⟩
  have hq1 : 1 ≤ q := by
    rcases Nat.eq_zero_or_pos q with h0 | h0
    · subst h0; simp at hq
    · exact h0
  have hqr : q * r = r * q := Nat.mul_comm q r
  have h1 : (2 * h) / r < q := by
    apply (Nat.div_lt_iff_lt_mul hr).mpr
    omega
  have h2 : q ≤ g / r := by
    apply (Nat.le_div_iff_mul_le hr).mpr
    omega
  omega

/-- per axis: the occupancy entry looked up for coarse cell `lo + c` is hit by an aligned fine box
    `[a, b]` exactly when the fine box covers the refined cell -/
theorem axis_hit_iff (r lo c a b : Nat) (hr : 0 < r) (heven : r % 2 = 0) (hlo : (2 * lo) % r = 0)
    (ha : a % r = 0) (hb : (b + 1) % r = 0) :
    (a / r ≤ (2 * lo) / r + c / (r / 2) ∧ (2 * lo) / r + c / (r / 2) ≤ b / r)
      ↔ (a ≤ 2 * (lo + c) ∧ 2 * (lo + c) ≤ b) := by
  have hme := Probe.maskEntry_eq r lo (lo + c) hr heven hlo (by omega)
  unfold Probe.maskEntry Probe.entry at hme
  rw [show lo + c - lo = c by omega] at hme
  rw [hme, aligned_lo_iff r a _ hr ha, aligned_hi_iff r b _ hr hb]

end Pestle

namespace Pestle

structure Aligned3 (r : Nat) (fine : Level) (b : Box) (l0 l1 l2 h0 h1 h2 g0 g1 g2 : Nat) : Prop where
  rpos : 0 < r
  reven : r % 2 = 0
  grid : fine.grid = [g0, g1, g2]
  gdiv : g0 % r = 0 ∧ g1 % r = 0 ∧ g2 % r = 0
  lo : b.lo = [l0, l1, l2]
  hi : b.hi = [h0, h1, h2]
  le : l0 ≤ h0 ∧ l1 ≤ h1 ∧ l2 ≤ h2
  alo : (2 * l0) % r = 0 ∧ (2 * l1) % r = 0 ∧ (2 * l2) % r = 0
  ahi : (2 * h0 + 2) % r = 0 ∧ (2 * h1 + 2) % r = 0 ∧ (2 * h2 + 2) % r = 0
  inside : 2 * h0 + 2 ≤ g0 ∧ 2 * h1 + 2 ≤ g1 ∧ 2 * h2 + 2 ≤ g2
  fineAligned : ∀ fb ∈ fine.boxes, ∃ a0 a1 a2 b0 b1 b2, fb.lo = [a0, a1, a2] ∧ fb.hi = [b0, b1, b2] ∧
    a0 % r = 0 ∧ a1 % r = 0 ∧ a2 % r = 0 ∧ (b0 + 1) % r = 0 ∧ (b1 + 1) % r = 0 ∧ (b2 + 1) % r = 0

/-- **C09 core.**  For a coarse box and the occupancy map of the next level, pestle's mask is
    defined (numpy does not raise) and marks exactly the cells that no box of the next level
    covers — so each coarse cell is counted if and only if it is not refined. -/
theorem mask_correct (r : Nat) (fine : Level) (b : Box) (l0 l1 l2 h0 h1 h2 g0 g1 g2 : Nat)
    (A : Aligned3 r fine b l0 l1 l2 h0 h1 h2 g0 g1 g2) :
    mask fine r b = some ((cells b.shape).map fun c => !covered fine b c) := by
  have hr := A.rpos
  obtain ⟨gd0, gd1, gd2⟩ := A.gdiv
  obtain ⟨in0, in1, in2⟩ := A.inside
  obtain ⟨le0, le1, le2⟩ := A.le
  obtain ⟨al0, al1, al2⟩ := A.alo
  obtain ⟨ah0, ah1, ah2⟩ := A.ahi
  have gp0 : 0 < g0 := by omega
  have gp1 : 0 < g1 := by omega
  have gp2 : 0 < g2 := by omega
  -- g / r is positive and the factors are r
  have q0 : 0 < g0 / r := Nat.lt_of_lt_of_le (Nat.succ_pos _) (end_in_map r h0 g0 hr ah0 in0)
  have q1 : 0 < g1 / r := Nat.lt_of_lt_of_le (Nat.succ_pos _) (end_in_map r h1 g1 hr ah1 in1)
  have q2 : 0 < g2 / r := Nat.lt_of_lt_of_le (Nat.succ_pos _) (end_in_map r h2 g2 hr ah2 in2)
  have f0 := factor_eq g0 r hr gd0 gp0
  have f1 := factor_eq g1 r hr gd1 gp1
  have f2 := factor_eq g2 r hr gd2 gp2
  have e0 := end_in_map r h0 g0 hr ah0 in0
  have e1 := end_in_map r h1 g1 hr ah1 in1
  have e2 := end_in_map r h2 g2 hr ah2 in2
  have m0 := mask_extent r l0 h0 hr A.reven al0 ah0 le0
  have m1 := mask_extent r l1 h1 hr A.reven al1 ah1 le1
  have m2 := mask_extent r l2 h2 hr A.reven al2 ah2 le2
  have hshape : b.shape = [h0 + 1 - l0, h1 + 1 - l1, h2 + 1 - l2] := by
    unfold Box.shape; rw [A.lo, A.hi]; rfl
  have hq0' : ¬ g0 / r = 0 := by omega
  have hq1' : ¬ g1 / r = 0 := by omega
  have hq2' : ¬ g2 / r = 0 := by omega
  have hr0 : ¬ r = 0 := by omega
  unfold mask
  simp only [A.grid, A.lo, A.hi, List.map_cons, List.map_nil, List.zipWith_cons_cons, List.zipWith_nil_right,
    hq0', hq1', hq2', if_false, f0, f1, f2, List.any_cons, List.any_nil, decide_false, Bool.or_false,
    Bool.false_eq_true, List.headD_cons, List.zip_cons_cons, List.zip_nil_right, hr0, hshape]
  -- the extents
  have c0 : (min (2 * h0 / r + 1) (g0 / r) - 2 * l0 / r) * (r / 2) = h0 + 1 - l0 := by
    rw [Nat.min_eq_left e0, ← m0]
    have hxy : 2 * l0 / r ≤ 2 * h0 / r := Nat.div_le_div_right (by omega)
    congr 1
    generalize 2 * h0 / r = x at hxy ⊢
    generalize 2 * l0 / r = y at hxy ⊢
    omega
  have c1 : (min (2 * h1 / r + 1) (g1 / r) - 2 * l1 / r) * (r / 2) = h1 + 1 - l1 := by
    rw [Nat.min_eq_left e1, ← m1]
    have hxy : 2 * l1 / r ≤ 2 * h1 / r := Nat.div_le_div_right (by omega)
    congr 1
    generalize 2 * h1 / r = x at hxy ⊢
    generalize 2 * l1 / r = y at hxy ⊢
    omega
  have c2 : (min (2 * h2 / r + 1) (g2 / r) - 2 * l2 / r) * (r / 2) = h2 + 1 - l2 := by
    rw [Nat.min_eq_left e2, ← m2]
    have hxy : 2 * l2 / r ≤ 2 * h2 / r := Nat.div_le_div_right (by omega)
    congr 1
    generalize 2 * h2 / r = x at hxy ⊢
    generalize 2 * l2 / r = y at hxy ⊢
    omega
  have hmul0 : l0 * 2 = 2 * l0 := Nat.mul_comm _ _
  have hmul1 : l1 * 2 = 2 * l1 := Nat.mul_comm _ _
  have hmul2 : l2 * 2 = 2 * l2 := Nat.mul_comm _ _
  have hmh0 : h0 * 2 = 2 * h0 := Nat.mul_comm _ _
  have hmh1 : h1 * 2 = 2 * h1 := Nat.mul_comm _ _
  have hmh2 : h2 * 2 = 2 * h2 := Nat.mul_comm _ _
  simp only [hmul0, hmul1, hmul2, hmh0, hmh1, hmh2, c0, c1, c2, ne_eq, not_true_eq_false, if_false]
  congr 1
  apply List.map_congr_left
  intro c hc
  obtain ⟨c0', c1', c2', rfl, _, _, _⟩ := mem_cells3 _ _ _ c hc
  simp only [List.zipWith_cons_cons, List.zipWith_nil_right]
  -- both sides are Booleans: compare through `≠ -1`
  have hiff : boxArrayAt fine.boxes r [2 * l0 / r + c0' / (r / 2), 2 * l1 / r + c1' / (r / 2), 2 * l2 / r + c2' / (r / 2)] ≠ -1
      ↔ covered fine b [c0', c1', c2'] = true := by
    rw [boxArrayAt_ne]
    unfold covered
    rw [List.any_eq_true]
    constructor
    · rintro ⟨fb, hfb, hh⟩
      refine ⟨fb, hfb, ?_⟩
      obtain ⟨a0, a1, a2, b0, b1, b2, hlo, hhi, ha0, ha1, ha2, hb0, hb1, hb2⟩ := A.fineAligned fb hfb
      simp only [hlo, hhi, A.lo, List.zip_cons_cons, List.zip_nil_right, List.all_cons, List.all_nil, Bool.and_true,
        Bool.and_eq_true, decide_eq_true_eq, List.zipWith_cons_cons, List.zipWith_nil_right] at hh ⊢
      have x0 := (axis_hit_iff r l0 c0' a0 b0 hr A.reven al0 ha0 hb0).mp ⟨hh.1.1, hh.1.2⟩
      have x1 := (axis_hit_iff r l1 c1' a1 b1 hr A.reven al1 ha1 hb1).mp ⟨hh.2.1.1, hh.2.1.2⟩
      have x2 := (axis_hit_iff r l2 c2' a2 b2 hr A.reven al2 ha2 hb2).mp ⟨hh.2.2.1, hh.2.2.2⟩
      exact ⟨x0, x1, x2⟩
    · rintro ⟨fb, hfb, hh⟩
      refine ⟨fb, hfb, ?_⟩
      obtain ⟨a0, a1, a2, b0, b1, b2, hlo, hhi, ha0, ha1, ha2, hb0, hb1, hb2⟩ := A.fineAligned fb hfb
      simp only [hlo, hhi, A.lo, List.zip_cons_cons, List.zip_nil_right, List.all_cons, List.all_nil, Bool.and_true,
        Bool.and_eq_true, decide_eq_true_eq, List.zipWith_cons_cons, List.zipWith_nil_right] at hh ⊢
      have x0 := (axis_hit_iff r l0 c0' a0 b0 hr A.reven al0 ha0 hb0).mpr ⟨hh.1.1, hh.1.2⟩
      have x1 := (axis_hit_iff r l1 c1' a1 b1 hr A.reven al1 ha1 hb1).mpr ⟨hh.2.1.1, hh.2.1.2⟩
      have x2 := (axis_hit_iff r l2 c2' a2 b2 hr A.reven al2 ha2 hb2).mpr ⟨hh.2.2.1, hh.2.2.2⟩
      exact ⟨⟨x0.1, x0.2⟩, ⟨x1.1, x1.2⟩, ⟨x2.1, x2.2⟩⟩
  by_cases hcov : covered fine b [c0', c1', c2'] = true
  · have := hiff.mpr hcov
    simp [hcov, this]
  · have hne : ¬ boxArrayAt fine.boxes r [2 * l0 / r + c0' / (r / 2), 2 * l1 / r + c1' / (r / 2), 2 * l2 / r + c2' / (r / 2)] ≠ -1 :=
      fun h => hcov (hiff.mp h)
    have heq : boxArrayAt fine.boxes r [2 * l0 / r + c0' / (r / 2), 2 * l1 / r + c1' / (r / 2), 2 * l2 / r + c2' / (r / 2)] = -1 :=
      Classical.not_not.mp hne
    simp [hcov, heq]

end Pestle
