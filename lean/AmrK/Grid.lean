import AmrK.CoverThm
/-! Concrete, executable covering-grid model shared by mandoline's 2D flattening (C08), whip (C10)
    and the in-plane placement of 3D slices: boxes of level `l` are expanded by `f = 2^(L-l)` with
    the code's repeat/reshape arithmetic and written over the coarser data in level order. -/
namespace Grid

structure GBox where
  lo : List Nat
  hi : List Nat
  data : List Int          -- one component, Fortran order (x fastest)
deriving Repr

def GBox.shape (b : GBox) : List Nat := List.zipWith (fun l h => h + 1 - l) b.lo b.hi

/-- Fortran linear index `i0 + n0*(i1 + n1*(i2 + …))` -/
def linIdx : List Nat → List Nat → Nat
  | n :: ns, i :: is => i + n * linIdx ns is
  | _, _ => 0

/-- the region written for a box expanded by `f`, and the local index read there, **as the code
    computes them**: slice `[lo*f, (hi+1)*f)` and element `(p - lo*f) / f` of the repeated array -/
def modelCovers (b : GBox) (f : Nat) (p : List Nat) : Bool :=
  (List.zip (List.zip b.lo b.hi) p).all fun ((l, h), x) => l * f ≤ x && x < (h + 1) * f

def modelLocal (b : GBox) (f : Nat) (p : List Nat) : List Nat :=
  (List.zip (List.zip b.lo b.hi) p).map fun q => (q.2 - q.1.1 * f) / f

def modelVal (b : GBox) (f : Nat) (p : List Nat) : Option Int :=
  if modelCovers b f p then b.data[linIdx b.shape (modelLocal b f p)]? else none

/-- specification: the box covers fine cell `p` iff it contains coarse cell `p / f`; the value is
    the stored value of that coarse cell -/
def specCovers (b : GBox) (f : Nat) (p : List Nat) : Bool :=
  (List.zip (List.zip b.lo b.hi) p).all fun ((l, h), x) => l ≤ x / f && x / f ≤ h

def specLocal (b : GBox) (f : Nat) (p : List Nat) : List Nat :=
  (List.zip (List.zip b.lo b.hi) p).map fun q => q.2 / f - q.1.1

def specVal (b : GBox) (f : Nat) (p : List Nat) : Option Int :=
  if specCovers b f p then b.data[linIdx b.shape (specLocal b f p)]? else none

theorem sub_mul_div' (x l f : Nat) (hf : 0 < f) (h : l * f ≤ x) : (x - l * f) / f = x / f - l := by
  obtain ⟨a, rfl⟩ : ∃ a, x = a + l * f := ⟨x - l * f, by omega⟩
  rw [Nat.add_sub_cancel, Nat.add_mul_div_right _ _ hf, Nat.add_sub_cancel]

theorem covers_eq (b : GBox) (f : Nat) (hf : 0 < f) (p : List Nat) : modelCovers b f p = specCovers b f p := by
  unfold modelCovers specCovers
  congr 1
  funext q
  obtain ⟨⟨l, h⟩, x⟩ := q
  have := Cover.region_iff f l h x hf
  rw [Bool.eq_iff_iff]
  simp only [Bool.and_eq_true, decide_eq_true_eq]
  exact this

theorem local_eq (b : GBox) (f : Nat) (hf : 0 < f) (p : List Nat) (h : modelCovers b f p = true) :
    modelLocal b f p = specLocal b f p := by
  unfold modelLocal specLocal
  apply List.map_congr_left
  intro q hq
  unfold modelCovers at h
  have := List.all_eq_true.mp h q hq
  obtain ⟨⟨l, hh⟩, x⟩ := q
  simp only [Bool.and_eq_true, decide_eq_true_eq] at this
  exact sub_mul_div' x l f hf this.1

/-- **in-plane placement.**  Writing the repeated array of a box into the slice `[lo*f, (hi+1)*f)`
    puts at every fine cell the stored value of the coarse cell containing it, and nothing elsewhere. -/
theorem modelVal_eq_specVal (b : GBox) (f : Nat) (hf : 0 < f) (p : List Nat) :
    modelVal b f p = specVal b f p := by
  unfold modelVal specVal
  rw [← covers_eq b f hf p]
  split
  · rename_i h; rw [local_eq b f hf p h]
  · rfl

/-- every box with its level, in the order the tools write them (coarse to fine) -/
def writes (levels : List (List GBox)) : List (Nat × GBox) :=
  (List.zip (List.range levels.length) levels).flatMap fun (l, bs) => bs.map fun b => (l, b)

def factor (L l : Nat) : Nat := 2 ^ (L - l)

def step (L : Nat) (p : List Nat) (acc : Option (Int × Nat)) (w : Nat × GBox) : Option (Int × Nat) :=
  match modelVal w.2 (factor L w.1) p with
  | some v => some (v, w.1)
  | none => acc

/-- value and grid level of fine cell `p` after all level-ordered overwrites (`none` = never written) -/
def coverAt (levels : List (List GBox)) (L : Nat) (p : List Nat) : Option (Int × Nat) :=
  (writes levels).foldl (step L p) none

theorem foldl_step_last (L : Nat) (p : List Nat) (ws : List (Nat × GBox)) (a : Option (Int × Nat)) :
    ws.foldl (step L p) a =
      match ws.reverse.find? (fun w => (modelVal w.2 (factor L w.1) p).isSome) with
      | some w => (modelVal w.2 (factor L w.1) p).map fun v => (v, w.1)
      | none => a := by
  induction ws generalizing a with
  | nil => rfl
  | cons w ws ih =>
    rw [List.foldl_cons, ih, List.reverse_cons, List.find?_append]
    cases h : ws.reverse.find? (fun w => (modelVal w.2 (factor L w.1) p).isSome) with
    | some w' => simp
    | none =>
      simp only [Option.none_or, List.find?_cons, List.find?_nil]
      unfold step
      cases hc : modelVal w.2 (factor L w.1) p <;> simp [hc]

/-- **last covering write wins**: the covering grid holds at `p` the stored value of the coarse cell
    containing `p` in the last box (in write order: coarse to fine) that covers it -/
theorem coverAt_last (levels : List (List GBox)) (L : Nat) (p : List Nat) :
    coverAt levels L p =
      match (writes levels).reverse.find? (fun w => (specVal w.2 (factor L w.1) p).isSome) with
      | some w => (specVal w.2 (factor L w.1) p).map fun v => (v, w.1)
      | none => none := by
  have hf : ∀ l, 0 < factor L l := fun l => Nat.pow_pos (by decide)
  unfold coverAt
  rw [foldl_step_last]
  have : (fun w : Nat × GBox => (modelVal w.2 (factor L w.1) p).isSome) =
      (fun w : Nat × GBox => (specVal w.2 (factor L w.1) p).isSome) := by
    funext w; rw [modelVal_eq_specVal _ _ (hf _)]
  rw [this]
  cases (writes levels).reverse.find? (fun w => (specVal w.2 (factor L w.1) p).isSome) with
  | none => rfl
  | some w => simp only [modelVal_eq_specVal _ _ (hf _)]

/-- all cells of a grid of the given shape, Fortran order -/
def cells : List Nat → List (List Nat)
  | [] => [[]]
  | n :: rest => (cells rest).flatMap fun tail => (List.range n).map fun i => i :: tail

end Grid
