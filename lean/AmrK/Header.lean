import AmrK.Py
/-! Prototype: line/token model of `PlotfileCooker.__init__` + `read_boxes` (global Header). -/
namespace Header
open Py

structure Meta where
  version : Bytes
  fields : List (Bytes × Nat)         -- (possibly renamed) name ↦ index, in insertion order
  ndims : Int
  time : Bytes                        -- float token, kept verbatim
  maxLevel : Int
  limitLevel : Int
  geoLo : List Bytes
  geoHi : List Bytes
  factors : List Int
  gridSizes : List (List Int)
  steps : List Int
  dx : List (List Bytes)
  npoints : List Int
  boxes : List (List (List (Bytes × Bytes)))   -- level → box → dim → (lo, hi) tokens
  cellPaths : List Bytes
deriving Repr

inductive Res where
  | ok (m : Meta)
  | refused (why : String)
deriving Repr

/-- python `float(s)` accepts this token (decimal forms, inf, nan) -/
def pyFloatOk (s : Bytes) : Bool :=
  let t := strip s
  let t := match t with | 43 :: r => r | 45 :: r => r | r => r
  let lower := t.map fun b => if 65 ≤ b && b ≤ 90 then b + 32 else b
  if lower == ofString "inf" || lower == ofString "infinity" || lower == ofString "nan" then true else
  let (mant, ex) := match (splitOn 101 lower) with       -- 'e'
    | [m] => (m, none)
    | [m, e] => (m, some e)
    | _ => ([], some [])
  let mantOk := match splitOn 46 mant with               -- '.'
    | [a] => !a.isEmpty && a.all isDigit
    | [a, b] => (!a.isEmpty || !b.isEmpty) && a.all isDigit && b.all isDigit
    | _ => false
  let exOk := match ex with
    | none => true
    | some e =>
      let e := match e with | 43 :: r => r | 45 :: r => r | r => r
      !e.isEmpty && e.all isDigit
  mantOk && exOk

/-- field-name table with the `_2`, `_3`, … renaming of repeated names -/
def addField (tbl : List (Bytes × Nat)) (name : Bytes) (i : Nat) : List (Bytes × Nat) :=
  if !(tbl.any (·.1 == name)) then tbl ++ [(name, i)] else
  let rec go (k : Nat) (fuel : Nat) : List (Bytes × Nat) :=
    let cand := name ++ ofString s!"_{k}"
    match fuel with
    | 0 => tbl
    | fuel + 1 => if !(tbl.any (·.1 == cand)) then tbl ++ [(cand, i)] else go (k + 1) fuel
  go 2 (tbl.length + 2)

def intTokens (l : Bytes) : Option (List Int) := (splitWs l).mapM pyInt
def floatTokens (l : Bytes) : Option (List Bytes) :=
  let ts := splitWs l
  if ts.all pyFloatOk then some ts else none

/-- every third token starting at index 1: `line.split()[1::3]` -/
def everyThirdFrom1 (l : List Bytes) : List Bytes :=
  (List.range l.length).filterMap fun i => if i % 3 = 1 then l[i]? else none

def parse (text : Bytes) (limit : Option Int) : Res := Id.run do
  let lines := splitOn 10 text
  let line (i : Nat) : Bytes := lines.getD i []
  let some nvars := pyInt (line 1) | return .refused "nvars"
  if nvars < 0 then return .refused "nvars-neg"
  let nv := nvars.toNat
  let mut tbl : List (Bytes × Nat) := []
  for i in List.range nv do
    tbl := addField tbl (line (2 + i)) i
  let p := 2 + nv
  let some ndims := pyInt (line p) | return .refused "ndims"
  if !pyFloatOk (line (p + 1)) then return .refused "time"
  let some maxLevel := pyInt (line (p + 2)) | return .refused "maxlevel"
  let some geoLo := floatTokens (line (p + 3)) | return .refused "geolo"
  let some geoHi := floatTokens (line (p + 4)) | return .refused "geohi"
  let some factors := intTokens (line (p + 5)) | return .refused "factors"
  let blocks := everyThirdFrom1 (splitWs (line (p + 6)))
  let some grids := blocks.mapM (fun b => (splitOn 44 (remove 41 (remove 40 b))).mapM pyInt) | return .refused "grid"
  let gridSizes := grids.map (·.map (· + 1))
  let some steps := intTokens (line (p + 7)) | return .refused "steps"
  if maxLevel + 1 < 0 then return .refused "maxlevel-neg"
  let nl := (maxLevel + 1).toNat
  let mut dx : List (List Bytes) := []
  for k in List.range nl do
    let some d := floatTokens (line (p + 8 + k)) | return .refused "dx"
    dx := dx ++ [d]
  let q := p + 8 + nl
  let some zero := pyInt (line (q + 1)) | return .refused "zero"
  if zero ≠ 0 then return .refused "zero-assert"
  let limitLevel ← match limit with
    | none => pure maxLevel
    | some l => if l ≤ maxLevel then pure l else return .refused "limit"
  -- read_boxes
  let mut cur := q + 2
  let mut npoints : List Int := []
  let mut boxes : List (List (List (Bytes × Bytes))) := []
  let mut paths : List Bytes := []
  for lv in List.range (limitLevel + 1).toNat do
    let [a, b, _] := splitWs (line cur) | return .refused "level-line"
    let some curLevel := pyInt a | return .refused "level-int"
    let some ncells := pyInt b | return .refused "ncells-int"
    if curLevel ≠ lv then return .refused "level-assert"
    cur := cur + 2
    let mut lvb : List (List (Bytes × Bytes)) := []
    for _ in List.range ncells.toNat do
      let mut bx : List (Bytes × Bytes) := []
      for _ in List.range ndims.toNat do
        let [lo, hi] := splitWs (line cur) | return .refused "box-line"
        if !(pyFloatOk lo && pyFloatOk hi) then return .refused "box-float"
        bx := bx ++ [(lo, hi)]
        cur := cur + 1
      lvb := lvb ++ [bx]
    -- `readline().split('/')[0]`: the newline stays when the line has no '/'
    let raw := line cur ++ (if cur + 1 < lines.length then [10] else [])
    paths := paths ++ [(splitOn 47 raw).headD []]
    cur := cur + 1
    npoints := npoints ++ [ncells]
    boxes := boxes ++ [lvb]
  -- compute_global_grids indexes every list by level and coordinate
  let nd := ndims.toNat
  if geoLo.length < nd || geoHi.length < nd then return .refused "grids-geo"
  for lv in List.range (limitLevel + 1).toNat do
    if (dx.getD lv []).length < nd || lv ≥ dx.length then return .refused "grids-dx"
    if (gridSizes.getD lv []).length < nd || lv ≥ gridSizes.length then return .refused "grids-size"
    if (gridSizes.getD lv []).any (· < 0) then return .refused "grids-neg"
  return .ok { version := line 0, fields := tbl, ndims, time := line (p + 1), maxLevel, limitLevel,
               geoLo, geoHi, factors, gridSizes, steps, dx, npoints, boxes, cellPaths := paths }

end Header
