import AmrK.Py
/-! Prototype: line/token model of `PlotfileCooker.__init__` + `read_boxes` (global Header). -/
namespace Header
open Py

structure Meta where
  version : Bytes
  fields : List (Bytes × Nat)         -- (possibly renamed) name ↦ index, in insertion order
  ndims : Int
  time : Bytes                        -- float token, kept verbatim
  maxLevel : Int
  limitLevel : Int
  geoLo : List Bytes
  geoHi : List Bytes
  factors : List Int
  gridSizes : List (List Int)
  steps : List Int
  dx : List (List Bytes)
  npoints : List Int
  boxes : List (List (List (Bytes × Bytes)))   -- level → box → dim → (lo, hi) tokens
  cellPaths : List Bytes
deriving Repr

inductive Res where
  | ok (m : Meta)
  | refused (why : String)
deriving Repr

/-- python `float(s)` accepts this token (decimal forms, inf, nan) -/
def pyFloatOk (s : Bytes) : Bool :=
  let t := strip s
  let t := match t with | 43 :: r => r | 45 :: r => r | r => r
  let lower := t.map fun b => if 65 ≤ b && b ≤ 90 then b + 32 else b
  if lower == ofString "inf" || lower == ofString "infinity" || lower == ofString "nan" then true else
  let (mant, ex) := match (splitOn 101 lower) with       -- 'e'
    | [m] => (m, none)
    | [m, e] => (m, some e)
    | _ => ([], some [])
  let mantOk := match splitOn 46 mant with               -- '.'
    | [a] => !a.isEmpty && a.all isDigit
    | [a, b] => (!a.isEmpty || !b.isEmpty) && a.all isDigit && b.all isDigit
    | _ => false
  let exOk := match ex with
    | none => true
    | some e =>
      let e := match e with | 43 :: r => r | 45 :: r => r | r => r
      !e.isEmpty && e.all isDigit
  mantOk && exOk

/-- field-name table with the `_2`, `_3`, … renaming of repeated names -/
def addField (tbl : List (Bytes × Nat)) (name : Bytes) (i : Nat) : List (Bytes × Nat) :=
  if !(tbl.any (·.1 == name)) then tbl ++ [(name, i)] else
  let rec go (k : Nat) (fuel : Nat) : List (Bytes × Nat) :=
    let cand := name ++ ofString s!"_{k}"
    match fuel with
    | 0 => tbl
    | fuel + 1 => if !(tbl.any (·.1 == cand)) then tbl ++ [(cand, i)] else go (k + 1) fuel
  go 2 (tbl.length + 2)

def intTokens (l : Bytes) : Option (List Int) := (splitWs l).mapM pyInt
def floatTokens (l : Bytes) : Option (List Bytes) :=
  let ts := splitWs l
  if ts.all pyFloatOk then some ts else none

/-- every third token starting at index 1: `line.split()[1::3]` -/
def everyThirdFrom1 (l : List Bytes) : List Bytes :=
  (List.range l.length).filterMap fun i => if i % 3 = 1 then l[i]? else none

/-- `n` lines of cell sizes starting at line `i` -/
def parseDx (line : Nat → Bytes) : Nat → Nat → Option (List (List Bytes))
  | _, 0 => some []
  | i, n + 1 =>
    match floatTokens (line i) with
    | none => none
    | some d => (parseDx line (i + 1) n).map (d :: ·)

/-- the `nd` lines `lo hi` of one box starting at line `i` -/
def parseBoxDims (line : Nat → Bytes) : Nat → Nat → Option (List (Bytes × Bytes))
  | _, 0 => some []
  | i, n + 1 =>
    match splitWs (line i) with
    | [lo, hi] => if pyFloatOk lo && pyFloatOk hi then (parseBoxDims line (i + 1) n).map ((lo, hi) :: ·) else none
    | _ => none

/-- `n` boxes of `nd` lines each starting at line `i` -/
def parseLevelBoxes (line : Nat → Bytes) (nd : Nat) : Nat → Nat → Option (List (List (Bytes × Bytes)))
  | _, 0 => some []
  | i, n + 1 =>
    match parseBoxDims line i nd with
    | none => none
    | some b => (parseLevelBoxes line nd (i + nd) n).map (b :: ·)

/-- `read_boxes`: `n` level blocks starting at line `cur`, the first one being level `lv`; per level
    (number of boxes, boxes, directory of the level) -/
def parseLevels (line : Nat → Bytes) (nlines nd : Nat) :
    Nat → Nat → Nat → Option (List (Int × List (List (Bytes × Bytes)) × Bytes))
  | _, _, 0 => some []
  | cur, lv, n + 1 =>
    match splitWs (line cur) with
    | [a, b, _] =>
      match pyInt a, pyInt b with
      | some curLevel, some ncells =>
        if curLevel ≠ (lv : Int) then none else
        match parseLevelBoxes line nd (cur + 2) ncells.toNat with
        | none => none
        | some lvb =>
          let c := cur + 2 + ncells.toNat * nd
          -- `readline().split('/')[0]`: the newline stays when the line has no '/'
          let raw := line c ++ (if c + 1 < nlines then [10] else [])
          (parseLevels line nlines nd (c + 1) (lv + 1) n).map ((ncells, lvb, (splitOn 47 raw).headD []) :: ·)
      | _, _ => none
    | _ => none

/-- `compute_global_grids` indexes every list by level and coordinate -/
def gridsOK (nd : Nat) (dx : List (List Bytes)) (gs : List (List Int)) (n : Nat) : Bool :=
  (List.range n).all fun lv =>
    decide (lv < dx.length) && decide (nd ≤ (dx.getD lv []).length) && decide (lv < gs.length) &&
      decide (nd ≤ (gs.getD lv []).length) && !((gs.getD lv []).any (· < 0))

def parse (text : Bytes) (limit : Option Int) : Res :=
  let lines := splitOn 10 text
  let line (i : Nat) : Bytes := lines.getD i []
  match pyInt (line 1) with
  | none => .refused "nvars"
  | some nvars =>
  if nvars < 0 then .refused "nvars-neg" else
  let nv := nvars.toNat
  let tbl := (List.range nv).foldl (fun t i => addField t (line (2 + i)) i) []
  let p := 2 + nv
  match pyInt (line p) with
  | none => .refused "ndims"
  | some ndims =>
  if !pyFloatOk (line (p + 1)) then .refused "time" else
  match pyInt (line (p + 2)) with
  | none => .refused "maxlevel"
  | some maxLevel =>
  match floatTokens (line (p + 3)), floatTokens (line (p + 4)) with
  | none, _ => .refused "geolo"
  | _, none => .refused "geohi"
  | some geoLo, some geoHi =>
  match intTokens (line (p + 5)) with
  | none => .refused "factors"
  | some factors =>
  match (everyThirdFrom1 (splitWs (line (p + 6)))).mapM (fun b => (splitOn 44 (remove 41 (remove 40 b))).mapM pyInt) with
  | none => .refused "grid"
  | some grids =>
  let gridSizes := grids.map (·.map (· + 1))
  match intTokens (line (p + 7)) with
  | none => .refused "steps"
  | some steps =>
  if maxLevel + 1 < 0 then .refused "maxlevel-neg" else
  let nl := (maxLevel + 1).toNat
  match parseDx line (p + 8) nl with
  | none => .refused "dx"
  | some dx =>
  let q := p + 8 + nl
  match pyInt (line (q + 1)) with
  | none => .refused "zero"
  | some zero =>
  if zero ≠ 0 then .refused "zero-assert" else
  let limitLevel? : Option Int := match limit with
    | none => some maxLevel
    | some l => if l ≤ maxLevel then some l else none
  match limitLevel? with
  | none => .refused "limit"
  | some limitLevel =>
  let nsel := (limitLevel + 1).toNat
  match parseLevels line lines.length ndims.toNat (q + 2) 0 nsel with
  | none => .refused "levels"
  | some lvs =>
  let nd := ndims.toNat
  if geoLo.length < nd || geoHi.length < nd then .refused "grids-geo" else
  if !gridsOK nd dx gridSizes nsel then .refused "grids" else
  .ok { version := line 0, fields := tbl, ndims, time := line (p + 1), maxLevel, limitLevel,
        geoLo, geoHi, factors, gridSizes, steps, dx, npoints := lvs.map (·.1), boxes := lvs.map (·.2.1),
        cellPaths := lvs.map (·.2.2) }

end Header
