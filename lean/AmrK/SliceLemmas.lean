import AmrK.ReaderR
/-! Probe: facts about Python `slice.indices` and `range` for positive steps. -/
namespace ReaderR
open Reader

theorem sliceIndices_pos (a b c : Option Int) (n : Int) (hn : 0 ≤ n) (hc : ∀ st, c = some st → 0 < st) :
    ∃ s e st, sliceIndices a b c n = some (s, e, st) ∧ st = c.getD 1 ∧ 0 < st ∧
      0 ≤ s ∧ s ≤ n ∧ 0 ≤ e ∧ e ≤ n := by
  have hst : 0 < c.getD 1 := by
    cases c with
    | none => simp
    | some st => simpa using hc st rfl
  unfold sliceIndices
  have h0 : ¬ (c.getD 1 = 0) := by omega
  have hneg : ¬ (c.getD 1 < 0) := by omega
  simp only [h0, if_false, hneg]
  refine ⟨_, _, _, rfl, rfl, hst, ?_, ?_, ?_, ?_⟩
  all_goals
    (first
      | (cases a <;> simp <;> (try split) <;> omega)
      | (cases b <;> simp <;> (try split) <;> omega))

theorem pyRange_pos (s e st : Int) (hst : 0 < st) :
    pyRange s e st = (List.range ((e - s + st - 1) / st).toNat).map fun (k : Nat) => s + (k : Int) * st := by
  unfold pyRange
  simp [hst]

/-- for `k` below the number of elements of `range(0, size, st)`, `k*st < size` -/
theorem range_elem_lt (size st : Int) (hst : 0 < st) (k : Nat)
    (hk : k < ((size + st - 1) / st).toNat) : (k : Int) * st < size := by
  have hq := Int.mul_ediv_add_emod (size + st - 1) st
  have hm0 := Int.emod_nonneg (size + st - 1) (Int.ne_of_gt hst)
  have hm1 := Int.emod_lt_of_pos (size + st - 1) hst
  -- q * st ≤ size + st - 1
  have hkq : (k : Int) + 1 ≤ (size + st - 1) / st := by omega
  have hmul : ((k : Int) + 1) * st ≤ ((size + st - 1) / st) * st :=
    Int.mul_le_mul_of_nonneg_right hkq (Int.le_of_lt hst)
  have hcomm : st * ((size + st - 1) / st) = ((size + st - 1) / st) * st := Int.mul_comm _ _
  have hexp : ((k : Int) + 1) * st = (k : Int) * st + st := by rw [Int.add_mul, Int.one_mul]
  omega

/-- number of elements of `range(s, e, st)` equals that of `range(0, max (e-s) 0, st)` -/
theorem range_len_eq (s e st : Int) (hst : 0 < st) :
    ((e - s + st - 1) / st).toNat = ((max (e - s) 0 + st - 1) / st).toNat := by
  by_cases h : s ≤ e
  · have : max (e - s) 0 = e - s := by omega
    rw [this]
  · have hmax : max (e - s) 0 = 0 := by omega
    rw [hmax]
    have h1 : (0 + st - 1) / st = 0 := by
      apply Int.ediv_eq_zero_of_lt <;> omega
    have h2 : (e - s + st - 1) / st ≤ 0 := by
      have : (e - s + st - 1) / st < 1 := by
        apply Int.ediv_lt_of_lt_mul hst; omega
      omega
    rw [h1]
    omega

end ReaderR
