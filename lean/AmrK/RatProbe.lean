import Mathlib.Tactic.FieldSimp
import Mathlib.Tactic.Ring
import Mathlib.Tactic.Linarith
import Mathlib.Algebra.Order.Field.Rat

namespace RatProbe

def lerp (vL nL vR nR p : Rat) : Rat :=
  (vL * (nR - p) + vR * (p - nL)) / (nR - nL)

theorem lerp_affine (a b nL nR p : Rat) (h : nL ≠ nR) :
    lerp (a + b * nL) nL (a + b * nR) nR p = a + b * p := by
  unfold lerp
  have h' : nR - nL ≠ 0 := sub_ne_zero.mpr (Ne.symm h)
  field_simp
  ring

theorem lerp_const (v nL nR p : Rat) (h : nL ≠ nR) : lerp v nL v nR p = v := by
  unfold lerp
  have h' : nR - nL ≠ 0 := sub_ne_zero.mpr (Ne.symm h)
  field_simp
  ring

-- cell centre lies in the cell
example (g d : Rat) (i : Int) (hd : 0 < d) : g + i * d < g + (i + 1/2) * d := by
  nlinarith

#eval lerp 1 0 3 1 (1/4)
end RatProbe
