import AmrK.Slicing
/-! C07: the default position is the domain centre, positions outside the domain are refused, positions inside are kept. -/
namespace Slicing

theorem axes (cn : Nat) (h : cn < 3) : (List.range 3).filter (· ≠ cn) =
    (if cn = 0 then [1, 2] else if cn = 1 then [0, 2] else [0, 1]) := by
  have : cn = 0 ∨ cn = 1 ∨ cn = 2 := by omega
  rcases this with rfl | rfl | rfl <;> decide

/-- **default position** -/
theorem default_is_centre (normal : Option Nat) (lo hi : List Rat) (h : normal.getD 0 < 3) :
    ∃ c, coords normal none lo hi = some c ∧ c.cn = normal.getD 0 ∧
      c.pos = entry lo c.cn + (entry hi c.cn - entry lo c.cn) / 2 ∧ c.cx < c.cy ∧ c.cx ≠ c.cn ∧ c.cy ≠ c.cn ∧ c.cy < 3 := by
  unfold coords
  simp only [axes _ h]
  have : normal.getD 0 = 0 ∨ normal.getD 0 = 1 ∨ normal.getD 0 = 2 := by omega
  rcases this with e | e | e <;> simp [e]

/-- **outside the domain: refused** -/
theorem outside_refused (normal : Option Nat) (p : Rat) (lo hi : List Rat)
    (hout : p < entry lo (normal.getD 0) ∨ p > entry hi (normal.getD 0)) : coords normal (some p) lo hi = none := by
  unfold coords
  simp only
  generalize (List.range 3).filter (· ≠ normal.getD 0) = ax
  match ax with
  | [cx, cy] => simp [hout]
  | [] => rfl
  | [_] => rfl
  | _ :: _ :: _ :: _ => rfl

/-- **inside the closed domain: sliced at that very position** -/
theorem inside_kept (normal : Option Nat) (p : Rat) (lo hi : List Rat) (h : normal.getD 0 < 3)
    (hin : entry lo (normal.getD 0) ≤ p ∧ p ≤ entry hi (normal.getD 0)) :
    ∃ c, coords normal (some p) lo hi = some c ∧ c.cn = normal.getD 0 ∧ c.pos = p := by
  unfold coords
  simp only [axes _ h]
  have hn : ¬ (p < entry lo (normal.getD 0) ∨ p > entry hi (normal.getD 0)) := by
    intro c
    rcases c with c | c
    · exact absurd hin.1 (Rat.not_le.mpr c)
    · exact absurd hin.2 (Rat.not_le.mpr c)
  have : normal.getD 0 = 0 ∨ normal.getD 0 = 1 ∨ normal.getD 0 = 2 := by omega
  rcases this with e | e | e <;> simp [e] at hn ⊢ <;> simp [hn]

end Slicing
