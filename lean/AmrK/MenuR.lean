/-! Probe: the repaired two-column min/max table of `menu` shows every field exactly once. -/
namespace MenuR

/-- field indices printed by the repaired `show_min_max`, row by row (`none` = padding entry) -/
def shown (n : Nat) : List (Option Nat) :=
  let len := if n % 2 = 1 then n + 1 else n        -- `if len(data) % 2: data[""] = …`
  let middle := len / 2
  let entry (i : Nat) : Option Nat := if i < n then some i else none
  (List.range middle).flatMap fun i => [entry i, entry (i + middle)]

theorem flatMap_pair_perm {α β : Type} (f g : α → β) (l : List α) :
    (l.flatMap fun i => [f i, g i]).Perm (l.map f ++ l.map g) := by
  induction l with
  | nil => simp
  | cons a l ih =>
    simp only [List.flatMap_cons, List.map_cons, List.cons_append, List.nil_append]
    refine List.Perm.cons _ ?_
    refine List.Perm.trans (List.Perm.cons _ ih) ?_
    exact List.perm_middle.symm

theorem range_add_map (m : Nat) : List.range m ++ (List.range m).map (· + m) = List.range (m + m) := by
  rw [List.range_add]
  congr 1
  apply List.map_congr_left
  intro a _; omega

theorem count_some_range (N i : Nat) (hi : i < N) : ((List.range N).map some).count (some i) = 1 := by
  induction N with
  | zero => omega
  | succ N ih =>
    rw [List.range_succ, List.map_append, List.count_append]
    by_cases h : i = N
    · subst h
      have h0 : ((List.range i).map some).count (some i) = 0 := by
        apply List.count_eq_zero.mpr
        intro hmem
        obtain ⟨j, hj, hje⟩ := List.mem_map.mp hmem
        have := List.mem_range.mp hj
        simp at hje; omega
      rw [h0]; simp
    · rw [ih (by omega)]
      have : ¬ N = i := fun e => h e.symm
      simp [this]

theorem count_entry_range (n N i : Nat) (hN : n ≤ N) (hi : i < n) :
    ((List.range N).map fun j => if j < n then some j else none).count (some i) = 1 := by
  obtain ⟨d, rfl⟩ : ∃ d, N = n + d := ⟨N - n, by omega⟩
  rw [List.range_add, List.map_append, List.count_append]
  have h1 : ((List.range n).map fun j => if j < n then some j else none) = (List.range n).map some := by
    apply List.map_congr_left
    intro j hj
    have := List.mem_range.mp hj
    simp [this]
  have h2 : (((List.range d).map (n + ·)).map fun j => if j < n then some j else none).count (some i) = 0 := by
    apply List.count_eq_zero.mpr
    intro hmem
    obtain ⟨j, hj, hje⟩ := List.mem_map.mp hmem
    obtain ⟨k, _, rfl⟩ := List.mem_map.mp hj
    have : ¬ n + k < n := by omega
    simp [this] at hje
  rw [h1, h2, count_some_range n i hi]

/-- **C18 (repaired table).** every field of a plotfile with `n` fields is printed exactly once -/
theorem shown_covers (n i : Nat) (hi : i < n) : (shown n).count (some i) = 1 := by
  unfold shown
  simp only []
  generalize hm : (if n % 2 = 1 then n + 1 else n) / 2 = m
  have hcover : n ≤ m + m := by
    by_cases h : n % 2 = 1
    · simp only [h, if_true] at hm; omega
    · simp only [h, if_false] at hm; omega
  have hperm := flatMap_pair_perm (fun i => if i < n then some i else none)
      (fun i => if i + m < n then some (i + m) else none) (List.range m)
  rw [hperm.count_eq]
  have : (List.range m).map (fun i => if i + m < n then some (i + m) else none)
      = ((List.range m).map (· + m)).map fun j => if j < n then some j else none := by
    rw [List.map_map]; rfl
  rw [this, ← List.map_append, range_add_map]
  exact count_entry_range n (m + m) i hcover hi

end MenuR
