import AmrK.Taste
/-! Prototype: byte-level model of the three `mp_read_box_*` functions and field normalisation. -/
namespace Reader
open Py Taste

inductive FArg where
  | idx (i : Int)
  | list (l : List Int)
  | slice (start stop step : Option Int)
deriving Repr

/-- python `slice(start, stop, step).indices(n)`; `none` = ValueError (step 0) -/
def sliceIndices (start stop step : Option Int) (n : Int) : Option (Int × Int × Int) :=
  let st := step.getD 1
  if st = 0 then none else
  let lower : Int := if st < 0 then -1 else 0
  let upper : Int := if st < 0 then n - 1 else n
  let norm (v : Option Int) (dflt : Int) : Int :=
    match v with
    | none => dflt
    | some x => if x < 0 then max (x + n) lower else min x upper
  let s := norm start (if st < 0 then upper else lower)
  let e := norm stop (if st < 0 then lower else upper)
  some (s, e, st)

/-- `range(start, stop, step)` -/
def pyRange (s e st : Int) : List Int :=
  if st > 0 then (List.range ((e - s + st - 1) / st).toNat).map fun (k : Nat) => s + (k : Int) * st
  else if st < 0 then (List.range ((s - e + (-st) - 1) / (-st)).toNat).map fun (k : Nat) => s + (k : Int) * st
  else []

/-- bounds check of `np.array(keys)[field_arg]` -/
def accepted (nf : Int) : FArg → Bool
  | .idx i => -nf ≤ i && i < nf
  | .list l => !l.isEmpty && l.all fun i => -nf ≤ i && i < nf
  | .slice _ _ st => st != some 0

structure Out where
  shape : List Int
  comps : List Bytes        -- component blocks (spatial block of n*8 bytes each)
deriving Repr, DecidableEq

def ncells (h : Hdr) : Int := (bcast h.lo h.hi).foldl (fun acc p => acc * (p.2 - p.1 + 1)) 1
def spatial (h : Hdr) : List Int := (bcast h.lo h.hi).map fun p => p.2 - p.1 + 1

/-- seek(rel, 1) then fromfile(count) then reshape(spatial ++ [k]) split into blocks of `n*8` bytes;
    a negative count reads every remaining whole item and a negative dimension is inferred by
    reshape; none = error -/
def window (raw : Bytes) (pos0 : Int) (n : Int) (first k : Int) : Option (List Bytes) :=
  let target := pos0 + n * first * 8
  if target < 0 || n ≤ 0 then none else
  let rest := raw.drop target.toNat
  let blocks (bytes : Bytes) (k : Nat) : List Bytes :=
    (List.range k).map fun j => (bytes.drop (j * (n * 8).toNat)).take (n * 8).toNat
  if k ≥ 0 then
    let bytes := rest.take (n * k * 8).toNat
    if bytes.length < (n * k * 8).toNat then none else some (blocks bytes k.toNat)
  else
    let items := rest.length / 8
    if items % n.toNat ≠ 0 then none else some (blocks rest (items / n.toNat))

def readBox (raw : Bytes) (off : Int) (fa : FArg) : Option Out := do
  if off < 0 then none
  let line := lineOf (raw.drop off.toNat)
  let h ← parseFabHeader line
  let n := ncells h
  let pos0 := off + line.length
  match fa with
  | .idx i =>
    let w ← window raw pos0 n i 1
    pure ⟨spatial h, w⟩
  | .slice a b c =>
    let (s, e, _) ← sliceIndices a b c h.nf
    let size := e - s
    let w ← window raw pos0 n s size
    -- data[..., slice] applied to the window of `size` components
    let (s2, e2, st2) ← sliceIndices a b c w.length
    let sel := pyRange s2 e2 st2
    let comps ← sel.mapM fun j => w[j.toNat]?
    pure ⟨spatial h ++ [(comps.length : Int)], comps⟩
  | .list l =>
    let f0 ← l.head?
    let fl ← l.getLast?
    let diff := fl - f0 + 1
    let w ← window raw pos0 n f0 diff
    let comps ← l.mapM fun j =>
      let r := j - f0
      let wl : Int := w.length
      let r' := if r < 0 then r + wl else r      -- numpy negative index wraps
      if r' < 0 || r' ≥ wl then none else w[r'.toNat]?
    pure ⟨spatial h ++ [(comps.length : Int)], comps⟩

end Reader
