import AmrK.Py
import AmrK.F64Text
/-! The checkpoint `Header` as `CheckpointReader.__init__` reads it (chk2plt): version, finest level, step, the line that
    is "sometimes an int" (when its value is integral the time is taken from the NEXT line), two small floats, the domain
    corners, per level the box list, and the level-0 grid size as the largest upper index plus one, doubled per level.
    Float tokens stay text (their values are decided by `F64.decimalValue`).  Core-only (run by the driver). -/
namespace ChkHeader
open Py

structure Parsed where
  maxLevel : Int
  step : Int
  time : Bytes
  small1 : Bytes
  small2 : Bytes
  geoLo : List Bytes
  geoHi : List Bytes
  levels : List (List (List Int × List Int))
  gridSizes : List (List Int)
deriving Repr

/-- `float(line)` succeeds -/
def isFloat (l : Bytes) : Bool := (F64.decimalValue (strip l)).isSome

/-- `float(line) % 1 == 0` -/
def integral (l : Bytes) : Bool :=
  match F64.decimalValue (strip l) with
  | some (_, .fin q) => q.den == 1
  | _ => false

def intList (s : Bytes) : Option (List Int) := (splitOn 44 (remove 41 (remove 40 s))).mapM pyInt

/-- one box line `((lo) (hi) (faces))` -/
def boxLine (l : Bytes) : Option (List Int × List Int) :=
  match splitWs l with
  | [a, b, _] => do
    let lo ← intList a
    let hi ← intList b
    pure (lo, hi)
  | _ => none

def readBoxes : Nat → List Bytes → Option (List (List Int × List Int) × List Bytes)
  | 0, rest => some ([], rest)
  | _ + 1, [] => none
  | n + 1, l :: rest => do
    let b ← boxLine l
    let (bs, r) ← readBoxes n rest
    pure (b :: bs, r)

/-- the level blocks: `(nboxes nfaces`, the box lines, one closing line -/
def readLevels : Nat → List Bytes → Option (List (List (List Int × List Int)) × List Bytes)
  | 0, rest => some ([], rest)
  | _ + 1, [] => none
  | n + 1, l :: rest =>
    match (splitWs (remove 40 l)).mapM pyInt with
    | some [nb, _] =>
      if nb < 0 then none else do
      let (bs, r) ← readBoxes nb.toNat rest
      match r with
      | [] => none
      | _ :: r' =>
        let (ls, r'') ← readLevels n r'
        pure (bs :: ls, r'')
    | _ => none

/-- `np.max(indices[:, 1, :], axis=0) + 1` (an empty level has no maximum: numpy raises) -/
def gridSize0 (boxes : List (List Int × List Int)) : Option (List Int) :=
  match boxes with
  | [] => none
  | b :: bs => some ((bs.foldl (fun acc x => List.zipWith max acc x.2) b.2).map (· + 1))

def doubled : Nat → List Int → List (List Int)
  | 0, _ => []
  | n + 1, g => g :: doubled n (g.map (· * 2))

/-- the line that is "sometimes an int": `(time token, lines after it)`; an integral value sends the reader to the next line -/
def timeOf (l3 : Bytes) (rest : List Bytes) : Option (Bytes × List Bytes) :=
  if !isFloat l3 then none
  else if integral l3 then
    match rest with
    | t :: r => if isFloat t then some (strip t, r) else none
    | [] => none
  else some (strip l3, rest)

/-- everything after the time -/
def tail (maxLevel step : Int) (time : Bytes) (rest : List Bytes) : Option Parsed :=
  match rest with
  | s1 :: s2 :: glo :: ghi :: rest' =>
    if !(isFloat s1 && isFloat s2 && (splitWs glo).all isFloat && (splitWs ghi).all isFloat) || maxLevel < 0 then none else
    match readLevels (maxLevel.toNat + 1) rest' with
    | none => none
    | some (levels, _) =>
      match gridSize0 (levels.headD []) with
      | none => none
      | some g0 =>
        some { maxLevel := maxLevel, step := step, time := time, small1 := strip s1, small2 := strip s2,
               geoLo := splitWs glo, geoHi := splitWs ghi, levels := levels, gridSizes := doubled (maxLevel.toNat + 1) g0 }
  | _ => none

/-- the reading of the header's lines (`none` = the constructor raises) -/
def parse (lines : List Bytes) : Option Parsed :=
  match lines with
  | _version :: l1 :: l2 :: l3 :: rest =>
    match pyInt l1, pyInt l2, timeOf l3 rest with
    | some m, some st, some (t, r) => tail m st t r
    | _, _, _ => none
  | _ => none

end ChkHeader
