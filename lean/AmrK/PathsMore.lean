import AmrK.Paths
/-! More default-output path theorems (C13) and distinct output paths of per-file tasks (C12). -/
namespace Paths
open Py

/-- **sibling defaults (repaired mandoline, chk2plt, and any `join(dirname(normpath p), name)`):
    a path with the same parent and any single last component is never inside `p`** -/
theorem sibling_not_inside (abs : Bool) (cs : List Bytes) (last name : Bytes)
    (h : GoodComps (cs ++ [last])) (hn : name ≠ [] ∧ NoByte 47 name) :
    ¬ Inside (render abs (cs ++ [name])) (render abs (cs ++ [last])) := by
  have hgood : GoodComps (cs ++ [name]) := by
    refine ⟨by simp, ?_⟩
    intro c hc
    rcases List.mem_append.mp hc with hc | hc
    · exact h.2 c (List.mem_append.mpr (Or.inl hc))
    · simp only [List.mem_singleton] at hc; subst hc; exact hn
  rintro ⟨extra, hne, heq⟩
  rw [comps_render abs _ hgood, comps_render abs _ h] at heq
  have := congrArg List.length heq
  simp only [List.length_append, List.length_cons, List.length_nil] at this
  cases extra with
  | nil => exact hne rfl
  | cons e es => simp at this

/-- the sibling is a *different* path exactly when the name differs from the input's last component;
    the pinned chk2plt default for a checkpoint name without `chk` (`name.replace('chk','plt') = name`)
    is the checkpoint directory itself -/
theorem sibling_ne_iff (abs : Bool) (cs : List Bytes) (last name : Bytes)
    (h : GoodComps (cs ++ [last])) (hn : name ≠ [] ∧ NoByte 47 name) :
    render abs (cs ++ [name]) ≠ render abs (cs ++ [last]) ↔ name ≠ last := by
  have hgood : GoodComps (cs ++ [name]) := by
    refine ⟨by simp, ?_⟩
    intro c hc
    rcases List.mem_append.mp hc with hc | hc
    · exact h.2 c (List.mem_append.mpr (Or.inl hc))
    · simp only [List.mem_singleton] at hc; subst hc; exact hn
  constructor
  · intro hne e; exact hne (by rw [e])
  · intro hne e
    have := congrArg comps e
    rw [comps_render abs _ hgood, comps_render abs _ h] at this
    have := List.append_cancel_left this
    exact hne (by simpa using this)

/-- **distinct binary files of one level directory are written to distinct output paths**
    (`join(out, level_dir, basename(file))` is injective in the basename): the per-file tasks of
    colander, combine, chef and chk2plt touch pairwise distinct files -/
theorem out_path_injective (abs : Bool) (cs : List Bytes) (b1 b2 : Bytes)
    (h1 : GoodComps (cs ++ [b1])) (h2 : GoodComps (cs ++ [b2]))
    (he : render abs (cs ++ [b1]) = render abs (cs ++ [b2])) : b1 = b2 := by
  have := congrArg comps he
  rw [comps_render abs _ h1, comps_render abs _ h2] at this
  have := List.append_cancel_left this
  simpa using this

end Paths
