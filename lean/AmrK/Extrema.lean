/-! menu's min/max table (C18): extrema over the per-box tables of the level headers with numpy's
    semantics (`np.min` / `np.max`: NaN is absorbing; ±inf are ordinary extreme values).  Core-only. -/
namespace Extrema

/-- a float as far as ordering is concerned -/
inductive V where
  | nan
  | ninf
  | fin (q : Rat)
  | pinf
deriving DecidableEq, Repr

/-- `a ≤ b` for non-NaN values -/
def le : V → V → Bool
  | .ninf, _ => true
  | _, .pinf => true
  | .fin a, .fin b => decide (a ≤ b)
  | _, _ => false

/-- numpy's minimum of two values -/
def vmin (a b : V) : V :=
  match a, b with
  | .nan, _ => .nan
  | _, .nan => .nan
  | a, b => if le a b then a else b

def vmax (a b : V) : V :=
  match a, b with
  | .nan, _ => .nan
  | _, .nan => .nan
  | a, b => if le a b then b else a

/-- reduction with `none` as the empty result (numpy raises on an empty array) -/
def red (f : V → V → V) (acc : Option V) (x : V) : Option V :=
  match acc with
  | none => some x
  | some a => some (f a x)

def reduce (f : V → V → V) (l : List V) : Option V := l.foldl (red f) none

def join (f : V → V → V) (a b : Option V) : Option V :=
  match a, b with
  | none, b => b
  | a, none => a
  | some x, some y => some (f x y)

/-- the table entry over all levels: the reduction of the per-level reductions
    (`np.min([cells[lv]["mins"][field].min() for lv in levels])`) -/
def overLevels (f : V → V → V) (levels : List (List V)) : Option V :=
  (levels.map (reduce f)).foldl (join f) none

/-- the table entry for the finest level only -/
def finest (f : V → V → V) (levels : List (List V)) : Option V :=
  match levels.getLast? with
  | none => none
  | some l => reduce f l

end Extrema
