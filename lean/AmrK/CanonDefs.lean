import AmrK.Py
/-! Byte-level printer of FAB headers (`header_from_indices`): definitions only. -/
namespace Py

/-- a decimal digit byte -/
def digitByte (d : Nat) : UInt8 := (48 + d % 10).toUInt8

/-- digits of `n`, most significant first; `fuel` bounds the recursion -/
def natBytesAux : Nat → Nat → Bytes → Bytes
  | 0, _, acc => acc
  | fuel + 1, n, acc =>
    if n / 10 = 0 then digitByte n :: acc else natBytesAux fuel (n / 10) (digitByte n :: acc)

def natBytes (n : Nat) : Bytes := natBytesAux (n + 1) n []

def intBytes (i : Int) : Bytes := if i < 0 then 45 :: natBytes (-i).toNat else natBytes i.toNat

/-- tokens each followed by one whitespace byte -/
def sepJoin : List (Bytes × UInt8) → Bytes
  | [] => []
  | (t, s) :: rest => t ++ s :: sepJoin rest

def joinSep (sep : UInt8) : List Bytes → Bytes
  | [] => []
  | [p] => p
  | p :: q :: rest => p ++ sep :: joinSep sep (q :: rest)

def intsB (l : List Int) : Bytes := joinSep 44 (l.map intBytes)


def prefixToks : List Bytes :=
  [[70,65,66], [40,40,56,44], [40,54,52], [49,49], [53,50], [48], [49], [49,50], [48],
   [49,48,50,51,41,41,44,40,56,44], [40,56], [55], [54], [53], [52], [51], [50]]
def lastConst : Bytes := [49,41,41,41]

def zerosB (d : Nat) : Bytes := joinSep 44 (List.replicate d [48])

def tokStart (lo : List Int) : Bytes := lastConst ++ [40, 40] ++ intsB lo ++ [41]
def tokStop (hi : List Int) : Bytes := [40] ++ intsB hi ++ [41]
def tokType (d : Nat) : Bytes := [40] ++ zerosB d ++ [41, 41]

/-- `header_from_indices(lo, hi, nf)` as bytes -/
def canonB (lo hi : List Int) (nf : Nat) : Bytes :=
  sepJoin (prefixToks.map (·, 32) ++
    [(tokStart lo, 32), (tokStop hi, 32), (tokType hi.length, 32), (natBytes nf, 10)])


end Py
