import AmrK.Reader
/-! Probe: correctness of the single-field read on the prototype definitions (core tactics only). -/
namespace Reader
open Py Taste

/-- a header line: newline-terminated, no other newline -/
def IsLine (h : Bytes) : Prop := ∃ body, h = body ++ [NL] ∧ NL ∉ body

theorem lineOf_line (h rest : Bytes) (hl : IsLine h) : lineOf (h ++ rest) = h := by
  obtain ⟨body, rfl, hb⟩ := hl
  induction body with
  | nil => simp [lineOf]
  | cons b body ih =>
    have hb' : b ≠ NL := fun e => hb (by simp [e])
    have : NL ∉ body := fun m => hb (by simp [m])
    simp only [List.cons_append, lineOf, hb', if_false]
    congr 1
    simpa using ih this

theorem drop_prefix (pre a rest : Bytes) (k : Nat) (hk : k ≤ a.length) :
    (pre ++ a ++ rest).drop (pre.length + k) = a.drop k ++ rest := by
  induction pre with
  | nil => simp [List.drop_append_of_le_length hk]
  | cons b pre ih =>
    have : (b :: pre).length + k = (pre.length + k) + 1 := by simp; omega
    rw [this]
    simpa using ih

/-- window with a non-negative component index inside the payload -/
theorem window_inside (pre line payload post : Bytes) (n f nf : Nat) (hn : 0 < n) (hf : f < nf)
    (hlen : payload.length = n * nf * 8) :
    window (pre ++ line ++ payload ++ post) ((pre.length : Int) + (line.length : Int)) (n : Int) (f : Int) 1
      = some [(payload.drop (n * f * 8)).take (n * 8)] := by
  unfold window
  have htarget : (pre.length : Int) + (line.length : Int) + (n : Int) * (f : Int) * 8
      = ((pre.length + line.length + n * f * 8 : Nat) : Int) := by
    simp only [Int.natCast_add, Int.natCast_mul]; rfl
  have hroom : n * f * 8 + n * 8 ≤ payload.length := by
    rw [hlen]
    have : n * (f + 1) ≤ n * nf := Nat.mul_le_mul_left n hf
    have e : n * f * 8 + n * 8 = n * (f + 1) * 8 := by rw [Nat.mul_add, Nat.mul_one, Nat.add_mul]
    rw [e]; exact Nat.mul_le_mul_right 8 this
  simp only [htarget]
  have h1 : ¬ (((pre.length + line.length + n * f * 8 : Nat) : Int) < 0 ∨ (n : Int) ≤ 0) := by omega
  have h1' : (decide (((pre.length + line.length + n * f * 8 : Nat) : Int) < 0) || decide ((n : Int) ≤ 0)) = false := by
    simpa using h1
  simp only [h1', Bool.false_eq_true, if_false, Int.toNat_natCast]
  have hk : ((1 : Int) ≥ 0) := by omega
  simp only [hk, if_true]
  have hd : (pre ++ line ++ payload ++ post).drop (pre.length + line.length + n * f * 8)
      = payload.drop (n * f * 8) ++ post := by
    have := drop_prefix (pre ++ line) payload post (n * f * 8) (by omega)
    simpa [List.append_assoc, Nat.add_assoc] using this
  have hn8 : ((n : Int) * 1 * 8).toNat = n * 8 := by
    have : (n : Int) * 1 * 8 = ((n * 8 : Nat) : Int) := by simp [Int.natCast_mul]
    rw [this, Int.toNat_natCast]
  have hn8' : ((n : Int) * 8).toNat = n * 8 := by
    have : (n : Int) * 8 = ((n * 8 : Nat) : Int) := by simp [Int.natCast_mul]
    rw [this, Int.toNat_natCast]
  rw [hd, hn8]
  have htake : (payload.drop (n * f * 8) ++ post).take (n * 8) = (payload.drop (n * f * 8)).take (n * 8) := by
    apply List.take_append_of_le_length
    simp only [List.length_drop]; omega
  rw [htake]
  have hlen2 : ((payload.drop (n * f * 8)).take (n * 8)).length = n * 8 := by
    simp only [List.length_take, List.length_drop]; omega
  simp only [hlen2, Nat.lt_irrefl, if_false, Int.toNat_one, List.range_one, List.map_cons, List.map_nil,
    Nat.zero_mul, List.drop_zero, hn8']
  congr 1
  congr 1
  rw [List.take_take, Nat.min_self]

/-- C01 core: reading field `f` of a FAB that sits anywhere in a file returns exactly the `f`-th
    component block of its payload, with the spatial shape of the header. -/
theorem readBox_idx_correct (pre line payload post : Bytes) (h : Hdr) (n f nf : Nat)
    (hl : IsLine line) (hp : parseFabHeader line = some h)
    (hcells : ncells h = (n : Int)) (hnf : h.nf = (nf : Int)) (hn : 0 < n) (hf : f < nf)
    (hlen : payload.length = n * nf * 8) :
    readBox (pre ++ line ++ payload ++ post) (pre.length : Int) (.idx (f : Int))
      = some ⟨spatial h, [(payload.drop (n * f * 8)).take (n * 8)]⟩ := by
  unfold readBox
  have hoff : ¬ ((pre.length : Int) < 0) := by omega
  have hdrop : (pre ++ line ++ payload ++ post).drop pre.length = line ++ (payload ++ post) := by
    simp [List.append_assoc]
  simp only [hoff, if_false, Int.toNat_natCast, hdrop, lineOf_line line _ hl, hp, hcells]
  have := window_inside pre line payload post n f nf hn hf hlen
  simp only [Option.bind_eq_bind, Option.pure_def, Option.bind_some]
  rw [hcells, this]
  rfl

end Reader
