import AmrK.PathsMore
/-! C13: executable model of the tools' default output paths (the repaired code), over POSIX paths
    as bytes: `normpath` for paths without `.`/`..` components, `split`, `join`, and the defaults of
    chef, marinate, chk2plt, combine, mandoline.  Compared with where the real tools write. -/
namespace Paths
open Py

def isAbs (p : Bytes) : Bool := p.head? == some 47

/-- `os.path.normpath` for paths without `.` / `..` components: collapse slashes, drop a trailing one -/
def normpath (p : Bytes) : Bytes :=
  if comps p = [] then (if isAbs p then [47] else [46]) else render (isAbs p) (comps p)

def basename (p : Bytes) : Bytes := (comps p).getLast?.getD []

/-- `os.path.join(os.path.split(normpath p)[0], name)`: same parent, last component `name` -/
def sibling (p name : Bytes) : Bytes := render (isAbs p) ((comps p).dropLast ++ [name])

/-- `str.replace(old, new)` on bytes (non-overlapping, left to right) -/
def replaceAll (old new : Bytes) : Bytes → Bytes
  | [] => []
  | b :: rest =>
    if old ≠ [] ∧ old.isPrefixOf (b :: rest) then new ++ replaceAll old new ((b :: rest).drop old.length)
    else b :: replaceAll old new rest
termination_by s => s.length
decreasing_by
  all_goals simp_wf
  · rename_i h
    have : 0 < old.length := List.length_pos_iff.mpr h.1
    omega

def chefDefault (p : Bytes) : Bytes := normpath p ++ ofString "_ck"
def marinateDefault (p : Bytes) : Bytes := normpath p ++ ofString ".pkl"
def chk2pltDefault (p : Bytes) : Bytes :=
  let base := basename p
  let plt := replaceAll (ofString "chk") (ofString "plt") base
  sibling p (if plt = base then base ++ ofString "_plt" else plt)
def combineDefault (p1 p2 : Bytes) : Bytes := basename p1 ++ basename p2
/-- mandoline: `join(split(normpath p)[0], slicename + plotnum)`; the slice name is a parameter -/
def mandolineDefault (p slicename : Bytes) : Bytes :=
  sibling p (slicename ++ [95] ++ (replaceAll (ofString "plt") [] (basename p)).filter (· ≠ 95))

theorem comps_normpath (p : Bytes) (h : GoodComps (comps p)) : comps (normpath p) = comps p := by
  unfold normpath
  rw [if_neg h.1]
  exact comps_render _ _ h

theorem normpath_eq_render (p : Bytes) (h : GoodComps (comps p)) : normpath p = render (isAbs p) (comps p) := by
  unfold normpath; rw [if_neg h.1]

/-- **chef's and marinate's defaults are never inside the input**, however the input path is written
    (trailing or doubled slashes included) -/
theorem concat_default_not_inside (p suffix : Bytes) (h : GoodComps (comps p)) (hs : suffix ≠ []) (hsuf : NoByte 47 suffix) :
    ¬ Inside (normpath p ++ suffix) p := by
  have hne := h.1
  obtain ⟨cs, last, hcs⟩ : ∃ cs last, comps p = cs ++ [last] := by
    rcases List.eq_nil_or_concat (comps p) with h0 | ⟨cs, last, h1⟩
    · exact absurd h0 hne
    · exact ⟨cs, last, by rw [h1, List.concat_eq_append]⟩
  rw [normpath_eq_render p h, hcs]
  have hgood : GoodComps (cs ++ [last]) := hcs ▸ h
  intro hin
  apply concat_not_inside (isAbs p) cs last suffix hgood hs hsuf
  obtain ⟨extra, hx, he⟩ := hin
  exact ⟨extra, hx, by rw [he, comps_render _ _ hgood, hcs]⟩

/-- **every sibling default (chk2plt, mandoline) is outside the input** -/
theorem sibling_default_not_inside (p name : Bytes) (h : GoodComps (comps p)) (hn : name ≠ [] ∧ NoByte 47 name) :
    ¬ Inside (sibling p name) p := by
  have hne := h.1
  obtain ⟨cs, last, hcs⟩ : ∃ cs last, comps p = cs ++ [last] := by
    rcases List.eq_nil_or_concat (comps p) with h0 | ⟨cs, last, h1⟩
    · exact absurd h0 hne
    · exact ⟨cs, last, by rw [h1, List.concat_eq_append]⟩
  have hgood : GoodComps (cs ++ [last]) := hcs ▸ h
  unfold sibling
  rw [hcs, List.dropLast_concat]
  intro hin
  apply sibling_not_inside (isAbs p) cs last name hgood hn
  obtain ⟨extra, hx, he⟩ := hin
  exact ⟨extra, hx, by rw [he, comps_render _ _ hgood, hcs]⟩

/-- **chk2plt's default is never the checkpoint directory itself**: the chosen name always differs
    from the checkpoint's own name -/
theorem chk2plt_name_differs (base : Bytes) :
    (if replaceAll (ofString "chk") (ofString "plt") base = base then base ++ ofString "_plt"
     else replaceAll (ofString "chk") (ofString "plt") base) ≠ base := by
  split
  · intro h
    have := congrArg List.length h
    have h4 : (ofString "_plt").length = 4 := by decide +kernel
    simp only [List.length_append, h4] at this
    omega
  · rename_i h; exact h

end Paths
