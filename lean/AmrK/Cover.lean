/-! Probe: level-ordered overwrite (covering grids of mandoline 2D, whip, in-plane part of slices). -/
namespace Cover

variable {Pix α : Type}

structure Write (Pix α : Type) where
  covers : Pix → Bool
  val : Pix → α

def apply (a : Pix → Option α) (w : Write Pix α) : Pix → Option α :=
  fun p => if w.covers p then some (w.val p) else a p

/-- after any sequence of region writes, a pixel holds the value of the **last** write covering it -/
theorem foldl_last (ws : List (Write Pix α)) (a : Pix → Option α) (p : Pix) :
    ws.foldl apply a p =
      match ws.reverse.find? (fun w => w.covers p) with
      | some w => some (w.val p)
      | none => a p := by
  induction ws generalizing a with
  | nil => rfl
  | cons w ws ih =>
    rw [List.foldl_cons, ih, List.reverse_cons, List.find?_append]
    cases h : ws.reverse.find? (fun w => w.covers p) with
    | some w' => simp
    | none =>
      simp only [Option.none_or, List.find?_cons, List.find?_nil]
      unfold apply
      cases hc : w.covers p <;> simp

/-- a box of level-`ℓ` cells `[lo, hi]` expanded by `f` covers fine index `p` iff it covers `p / f` -/
theorem region_iff (f lo hi p : Nat) (hf : 0 < f) :
    (lo * f ≤ p ∧ p < (hi + 1) * f) ↔ (lo ≤ p / f ∧ p / f ≤ hi) := by
  constructor
  · rintro ⟨h1, h2⟩
    exact ⟨(Nat.le_div_iff_mul_le hf).mpr h1, Nat.lt_succ_iff.mp ((Nat.div_lt_iff_lt_mul hf).mpr h2)⟩
  · rintro ⟨h1, h2⟩
    exact ⟨(Nat.le_div_iff_mul_le hf).mp h1, (Nat.div_lt_iff_lt_mul hf).mp (Nat.lt_succ_iff.mpr h2)⟩

/-- `np.repeat(arr, f).reshape(n0, n1*f)`: element `[i][j]` is `arr[i][j / f]` (C-order flat index) -/
theorem repeat_reshape_index (n1 f i j : Nat) (hf : 0 < f) (hj : j < n1 * f) :
    (i * (n1 * f) + j) / f = i * n1 + j / f := by
  have : i * (n1 * f) = (i * n1) * f := by rw [Nat.mul_assoc]
  rw [this, Nat.add_comm, Nat.add_mul_div_right _ _ hf, Nat.add_comm]

end Cover
