namespace Probe

/-- python `a // b` for Int with b > 0 is Int.fdiv / ediv; Nat is fine for indices -/
def entry (r c : Nat) : Nat := (2 * c) / r

/-- pestle mask lookup: coarse cell c in coarse box [lo,hi] -> box-array entry -/
def maskEntry (r lo c : Nat) : Nat := (2 * lo) / r + (c - lo) / (r / 2)

theorem maskEntry_eq (r lo c : Nat) (hr : 0 < r) (heven : r % 2 = 0)
    (hal : (2 * lo) % r = 0) (hc : lo ≤ c) : maskEntry r lo c = entry r c := by
  unfold maskEntry entry
  obtain ⟨k, hk⟩ : ∃ k, r = 2 * k := ⟨r / 2, by omega⟩
  subst hk
  have hk0 : 0 < k := by omega
  have h1 : (2 * k) / 2 = k := by omega
  rw [h1]
  -- 2*lo = (2k) * q
  obtain ⟨q, hq⟩ : ∃ q, 2 * lo = (2 * k) * q := ⟨(2 * lo) / (2 * k), by
    have := Nat.div_add_mod (2 * lo) (2 * k); omega⟩
  have hlo : lo = k * q := by
    have : 2 * lo = 2 * (k * q) := by rw [hq, Nat.mul_assoc]
    omega
  subst hlo
  have e1 : 2 * (k * q) / (2 * k) = q := by
    rw [show 2 * (k * q) = (2 * k) * q by rw [Nat.mul_assoc]]
    exact Nat.mul_div_cancel_left q (by omega)
  rw [e1]
  have e2 : 2 * c / (2 * k) = c / k := Nat.mul_div_mul_left c k (by omega)
  rw [e2]
  obtain ⟨d, hd⟩ : ∃ d, c = k * q + d := ⟨c - k * q, by omega⟩
  subst hd
  simp only [Nat.add_sub_cancel_left]
  rw [Nat.mul_comm k q, Nat.add_comm (q * k) d, Nat.add_mul_div_right d q hk0, Nat.add_comm]

/-- mandoline chunking: number of chunks written vs names available -/
def nChunks (n chunk : Nat) : Nat := (n + chunk - 1) / chunk
def chunkOK (n nfiles : Nat) : Bool :=
  let chunk := n / nfiles
  chunk != 0 && nChunks n chunk ≤ nfiles + 1

example : chunkOK 11 4 = false := by decide
example : chunkOK 3 4 = false := by decide

/-- disjoint writes commute -/
def write (a : Nat → Option Nat) (w : (Nat → Bool) × Nat) : Nat → Option Nat :=
  fun i => if w.1 i then some w.2 else a i

theorem write_comm (a : Nat → Option Nat) (w1 w2 : (Nat → Bool) × Nat)
    (hd : ∀ i, ¬ (w1.1 i = true ∧ w2.1 i = true)) :
    write (write a w1) w2 = write (write a w2) w1 := by
  funext i
  simp only [write]
  have := hd i
  by_cases h1 : w1.1 i = true <;> by_cases h2 : w2.1 i = true <;> simp_all

end Probe
