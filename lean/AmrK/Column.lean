/-! Prototype: one-pixel column model of mandoline's 3D slice (pinned code), values in Rat. -/
namespace Column

structure CBox where
  a : Int                 -- first normal index
  vals : List Rat         -- stored samples along the normal, index a, a+1, …
deriving Repr

structure Sample where
  v : Rat
  n : Rat                 -- normal coordinate of the sample
deriving Repr

def absR (x : Rat) : Rat := if x < 0 then -x else x

/-- numpy.isclose(a, b) with default tolerances, exact arithmetic -/
def close (a b : Rat) : Bool := absR (a - b) ≤ (1 : Rat) / 100000000 + (1 : Rat) / 100000 * absR b

def pow2 (k : Nat) : Rat := (2 ^ k : Nat)

structure Cfg where
  g : Rat                 -- domain low bound along the normal
  G : Rat                 -- domain high bound
  d0 : Rat                -- level-0 cell size along the normal
  levels : List (List CBox)
  pos : Rat
  fixed : Bool := false     -- model of the repaired code (half-cell dilation, grid level at faces)

def dx (c : Cfg) (l : Nat) : Rat := c.d0 / pow2 l

def boxLo (c : Cfg) (l : Nat) (b : CBox) : Rat := c.g + b.a * dx c l
def boxHi (c : Cfg) (l : Nat) (b : CBox) : Rat := c.g + (b.a + b.vals.length) * dx c l
def centre (c : Cfg) (l : Nat) (b : CBox) (i : Nat) : Rat := boxLo c l b + ((i : Rat) + 1/2) * dx c l

/-- compute_mpinput_3d -/
def selected (c : Cfg) (l : Nat) (b : CBox) : Bool :=
  let h : Rat := if c.fixed then dx c l / 2 else 0
  boxLo c l b - h ≤ c.pos && c.pos ≤ boxHi c l b + h

def findIdx? (p : Nat → Bool) (n : Nat) : Option Nat := (List.range n).find? p
def findLastIdx? (p : Nat → Bool) (n : Nat) : Option Nat := ((List.range n).reverse).find? p

/-- slice_box: (left?, right?) -/
def sliceBox (c : Cfg) (l : Nat) (b : CBox) : Option Sample × Option Sample :=
  let n := b.vals.length
  if n = 0 then (none, none) else
  let ctr := centre c l b
  let val (i : Nat) : Rat := b.vals.getD i 0
  if c.pos > ctr (n - 1) then (some ⟨val (n - 1), ctr (n - 1)⟩, none)
  else if c.pos < ctr 0 then (none, some ⟨val 0, ctr 0⟩)
  else match findIdx? (fun i => close c.pos (ctr i)) n with
    | some i => (some ⟨val i, ctr i⟩, some ⟨val i, ctr i⟩)
    | none =>
      match findLastIdx? (fun i => c.pos > ctr i) n, findIdx? (fun i => c.pos < ctr i) n with
      | some il, some ir => (some ⟨val il, ctr il⟩, some ⟨val ir, ctr ir⟩)
      | _, _ => (none, none)        -- unreachable for the cases above (IndexError in Python)

structure St where
  left : Option Sample := none
  right : Option Sample := none
  gl : Option Nat := none      -- grid_level['left']
  gr : Option Nat := none
deriving Repr

/-- reducemp_data_ortho, one box output at level l -/
def absorb (c : Cfg) (l : Nat) (s : St) (o : Option Sample × Option Sample) : St :=
  let first := c.g + dx c l / 2
  let last := c.G - dx c l / 2
  let s := match o.1 with
    | none => s
    | some x =>
      let s := { s with left := some x, gl := some l }
      if close x.n last then (if c.fixed then { s with right := some x, gr := some l } else { s with right := some x }) else s
  match o.2 with
    | none => s
    | some x =>
      let s := { s with right := some x, gr := some l }
      if close x.n first then (if c.fixed then { s with left := some x, gl := some l } else { s with left := some x }) else s

def reduce (c : Cfg) : St :=
  let rec go (l : Nat) (lvls : List (List CBox)) (s : St) : St :=
    match lvls with
    | [] => s
    | bs :: rest =>
      let s := (bs.filter (selected c l)).foldl (fun s b => absorb c l s (sliceBox c l b)) s
      go (l + 1) rest s
  go 0 c.levels {}

/-- final interpolation; `none` = reads a never-written cell -/
def result (c : Cfg) : Option Rat :=
  let s := reduce c
  match s.left, s.right with
  | some L, some R =>
    if !(close L.n R.n) then some ((L.v * (R.n - c.pos) + R.v * (c.pos - L.n)) / (R.n - L.n))
    else some R.v
  | _, _ => none

def gridLevel (c : Cfg) : Option Nat :=
  let s := reduce c
  match s.gl, s.gr with
  | some a, some b => some (min a b)
  | _, _ => none

end Column
