/-! The coordinates returned with a slice / flattened grid: `np.linspace(lo + dx/2, hi - dx/2, n)` with
    `hi = lo + n·dx` (exact rationals; the real arrays are compared up to floating-point rounding). Core-only. -/
namespace Coords

/-- `np.linspace(a, b, n)[k]` (endpoint included) -/
def linspaceAt (a b : Rat) (n k : Nat) : Rat :=
  if n ≤ 1 then a else a + (k : Rat) * ((b - a) / ((n : Rat) - 1))

/-- the coordinate array of one in-plane axis at the selected level -/
def axis (lo hi dx : Rat) (n : Nat) : List Rat :=
  (List.range n).map fun k => linspaceAt (lo + dx / 2) (hi - dx / 2) n k

/-- cell centres -/
def centres (lo dx : Rat) (n : Nat) : List Rat := (List.range n).map fun (k : Nat) => lo + ((k : Rat) + 1 / 2) * dx

end Coords
