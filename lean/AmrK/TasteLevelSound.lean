import AmrK.TasteProofs
import AmrK.TasteComplete
/-! C04: what acceptance of one level by default validation means (assembly of the cores). -/
namespace Taste
open Py

/-- **Acceptance of a level decomposes**: the level header parses, every referenced binary file is
    present, and for every file the header check and the byte walk both accept the entries of that
    file taken in offset order. -/
theorem tasteLevel_accepts (cellH : Bytes) (nf : Nat) (files : List (String × Bytes))
    (h : (tasteLevel cellH nf files).1 = true) :
    ∃ entries, parseCellH cellH nf = .ok entries ∧
      ∀ n ∈ dedup (entries.map (·.file)), ∃ raw, files.lookup n = some raw ∧
        headersOK raw nf (sortByOffset (entries.filter (·.file == n))) = true ∧
        shapeOK raw nf (sortByOffset (entries.filter (·.file == n))) = true := by
  unfold tasteLevel at h
  cases hp : parseCellH cellH nf with
  | bad why => rw [hp] at h; simp at h
  | ok entries =>
    rw [hp] at h
    refine ⟨entries, rfl, ?_⟩
    simp only at h
    split at h
    · simp at h
    · rename_i hmiss
      split at h
      · simp at h
      · rename_i hhead
        split at h
        · simp at h
        · rename_i hshape
          intro n hn
          have hpres : (files.lookup n).isNone = false := by
            simp only [List.any_eq_true, not_exists, not_and, Bool.not_eq_true] at hmiss
            exact hmiss n hn
          cases hl : files.lookup n with
          | none => rw [hl] at hpres; simp at hpres
          | some raw =>
            refine ⟨raw, rfl, ?_, ?_⟩
            · simp only [Bool.not_eq_true, Bool.not_eq_false', List.all_eq_true, List.mem_map,
                forall_exists_index, and_imp, forall_apply_eq_imp_iff₂] at hhead
              have := hhead n hn
              simpa [hl] using this
            · simp only [Bool.not_eq_true, Bool.not_eq_false', List.all_eq_true, List.mem_map,
                forall_exists_index, and_imp, forall_apply_eq_imp_iff₂] at hshape
              have := hshape n hn
              simpa [hl] using this

/-- **Hence every binary file of an accepted level is a chain** header · payload of the announced
    size · canonical next header · … ending at end of file, along its entries in offset order
    (under `NoDegenerate`; entries with non-empty index lists). -/
theorem accepted_level_layout (cellH : Bytes) (nf : Nat) (files : List (String × Bytes))
    (h : (tasteLevel cellH nf files).1 = true) :
    ∃ entries, parseCellH cellH nf = .ok entries ∧
      ∀ n ∈ dedup (entries.map (·.file)), ∃ raw, files.lookup n = some raw ∧
        (NoDegenerate raw → sortByOffset (entries.filter (·.file == n)) ≠ [] →
          Layout nf raw (sortByOffset (entries.filter (·.file == n)))) := by
  obtain ⟨entries, hp, hall⟩ := tasteLevel_accepts cellH nf files h
  refine ⟨entries, hp, ?_⟩
  intro n hn
  obtain ⟨raw, hl, _, hs⟩ := hall n hn
  refine ⟨raw, hl, ?_⟩
  intro hnd hne
  refine shapeOK_sound raw nf _ hnd hne ?_ hs
  intro e _
  obtain ⟨body, hb, _⟩ := isLine_canonB e.lo e.hi nf
  unfold canonHeader; rw [hb]; simp

end Taste
