/-! Prototype: the Python string primitives the header parsers rely on, over ASCII bytes. -/
namespace Py

abbrev Bytes := List UInt8

def isSpace (b : UInt8) : Bool :=
  b = 32 || (9 ≤ b && b ≤ 13) || (28 ≤ b && b ≤ 31)

/-- `s.split()` -/
def splitWs (s : Bytes) : List Bytes :=
  let rec go (cur : Bytes) (acc : List Bytes) : Bytes → List Bytes
    | [] => (if cur.isEmpty then acc else cur.reverse :: acc).reverse
    | b :: rest =>
      if isSpace b then go [] (if cur.isEmpty then acc else cur.reverse :: acc) rest
      else go (b :: cur) acc rest
  go [] [] s

/-- `s.split(sep)` for a single-byte separator (keeps empty pieces) -/
def splitOn (sep : UInt8) (s : Bytes) : List Bytes :=
  let rec go (cur : Bytes) (acc : List Bytes) : Bytes → List Bytes
    | [] => (cur.reverse :: acc).reverse
    | b :: rest => if b = sep then go [] (cur.reverse :: acc) rest else go (b :: cur) acc rest
  go [] [] s

def remove (c : UInt8) (s : Bytes) : Bytes := s.filter (· ≠ c)

def strip (s : Bytes) : Bytes := ((s.dropWhile isSpace).reverse.dropWhile isSpace).reverse

def isDigit (b : UInt8) : Bool := 48 ≤ b && b ≤ 57

/-- digits with single underscores between digits -/
def digitsVal : Bytes → Option Nat
  | [] => none
  | s =>
    let rec go (acc : Nat) (prevDigit : Bool) : Bytes → Option Nat
      | [] => if prevDigit then some acc else none
      | b :: rest =>
        if isDigit b then go (acc * 10 + (b.toNat - 48)) true rest
        else if b = 95 && prevDigit && !rest.isEmpty then
          match rest with
          | c :: _ => if isDigit c then go acc false rest else none
          | [] => none
        else none
    go 0 false s

/-- `int(s)` for ASCII input -/
def pyInt (s : Bytes) : Option Int :=
  match strip s with
  | [] => none
  | 45 :: rest => (digitsVal rest).map fun n => -(n : Int)
  | 43 :: rest => (digitsVal rest).map fun n => (n : Int)
  | t => (digitsVal t).map fun n => (n : Int)

def ofString (s : String) : Bytes := s.toUTF8.toList
def isAscii (s : Bytes) : Bool := s.all (· < 128)

end Py
