import AmrK.Column
import Mathlib.Tactic.Linarith
import Mathlib.Tactic.Ring
import Mathlib.Tactic.FieldSimp
import Mathlib.Algebra.Order.Field.Rat
/-! Probe: in the repaired slice, every pixel's two samples are written before they are read
    (C07 `slice_initialised`), for every well-formed column and every position in the domain. -/
namespace Column

/-! ### A. `absorb` never forgets a written side -/

theorem absorb_left_mono (c : Cfg) (l : Nat) (s : St) (o : Option Sample × Option Sample)
    (h : s.left.isSome) : (absorb c l s o).left.isSome := by
  unfold absorb
  rcases o with ⟨o1, o2⟩
  cases o1 <;> cases o2 <;> simp only [] <;> (repeat' split) <;> simp_all

theorem absorb_right_mono (c : Cfg) (l : Nat) (s : St) (o : Option Sample × Option Sample)
    (h : s.right.isSome) : (absorb c l s o).right.isSome := by
  unfold absorb
  rcases o with ⟨o1, o2⟩
  cases o1 <;> cases o2 <;> simp only [] <;> (repeat' split) <;> simp_all

/-! ### B. what one box output establishes -/

theorem absorb_left_of_fst (c : Cfg) (l : Nat) (s : St) (o : Option Sample × Option Sample)
    (h : o.1.isSome) : (absorb c l s o).left.isSome := by
  unfold absorb
  rcases o with ⟨o1, o2⟩
  cases o1 <;> cases o2 <;> simp only [] <;> (repeat' split) <;> simp_all

theorem absorb_right_of_snd (c : Cfg) (l : Nat) (s : St) (o : Option Sample × Option Sample)
    (h : o.2.isSome) : (absorb c l s o).right.isSome := by
  unfold absorb
  rcases o with ⟨o1, o2⟩
  cases o1 <;> cases o2 <;> simp only [] <;> (repeat' split) <;> simp_all

theorem absorb_right_of_fst_last (c : Cfg) (l : Nat) (s : St) (o : Option Sample × Option Sample)
    (x : Sample) (h : o.1 = some x) (hc : close x.n (c.G - dx c l / 2) = true) :
    (absorb c l s o).right.isSome := by
  unfold absorb
  rcases o with ⟨o1, o2⟩
  simp only at h
  subst h
  cases o2 <;> simp only [hc] <;> (repeat' split) <;> simp_all

theorem absorb_left_of_snd_first (c : Cfg) (l : Nat) (s : St) (o : Option Sample × Option Sample)
    (x : Sample) (h : o.2 = some x) (hc : close x.n (c.g + dx c l / 2) = true) :
    (absorb c l s o).left.isSome := by
  unfold absorb
  rcases o with ⟨o1, o2⟩
  simp only at h
  subst h
  cases o1 <;> simp only [hc] <;> (repeat' split) <;> simp_all


/-! ### C. folding over the boxes of a level, D. over the levels -/

theorem foldl_left_mono (c : Cfg) (l : Nat) (bs : List CBox) (s : St) (h : s.left.isSome) :
    (bs.foldl (fun s b => absorb c l s (sliceBox c l b)) s).left.isSome := by
  induction bs generalizing s with
  | nil => exact h
  | cons b bs ih => exact ih _ (absorb_left_mono c l s _ h)

theorem foldl_right_mono (c : Cfg) (l : Nat) (bs : List CBox) (s : St) (h : s.right.isSome) :
    (bs.foldl (fun s b => absorb c l s (sliceBox c l b)) s).right.isSome := by
  induction bs generalizing s with
  | nil => exact h
  | cons b bs ih => exact ih _ (absorb_right_mono c l s _ h)

theorem foldl_left_of_mem (c : Cfg) (l : Nat) (bs : List CBox) (s : St) (b : CBox) (hb : b ∈ bs)
    (hset : ∀ s, (absorb c l s (sliceBox c l b)).left.isSome) :
    (bs.foldl (fun s b => absorb c l s (sliceBox c l b)) s).left.isSome := by
  induction bs generalizing s with
  | nil => cases hb
  | cons b' bs ih =>
    rcases List.mem_cons.mp hb with rfl | hb
    · exact foldl_left_mono c l bs _ (hset s)
    · exact ih _ hb

theorem foldl_right_of_mem (c : Cfg) (l : Nat) (bs : List CBox) (s : St) (b : CBox) (hb : b ∈ bs)
    (hset : ∀ s, (absorb c l s (sliceBox c l b)).right.isSome) :
    (bs.foldl (fun s b => absorb c l s (sliceBox c l b)) s).right.isSome := by
  induction bs generalizing s with
  | nil => cases hb
  | cons b' bs ih =>
    rcases List.mem_cons.mp hb with rfl | hb
    · exact foldl_right_mono c l bs _ (hset s)
    · exact ih _ hb

theorem go_mono (c : Cfg) (l : Nat) (lvls : List (List CBox)) (s : St)
    (hl : s.left.isSome) (hr : s.right.isSome) :
    (reduce.go c l lvls s).left.isSome ∧ (reduce.go c l lvls s).right.isSome := by
  induction lvls generalizing l s with
  | nil => exact ⟨hl, hr⟩
  | cons bs rest ih =>
    unfold reduce.go
    exact ih _ _ (foldl_left_mono c l _ s hl) (foldl_right_mono c l _ s hr)

/-- once level 0 has written both sides, the interpolation reads initialised cells only -/
theorem result_isSome_of_level0 (c : Cfg) (bs : List CBox) (rest : List (List CBox))
    (hlv : c.levels = bs :: rest)
    (h0l : ((bs.filter (selected c 0)).foldl (fun s b => absorb c 0 s (sliceBox c 0 b)) {}).left.isSome)
    (h0r : ((bs.filter (selected c 0)).foldl (fun s b => absorb c 0 s (sliceBox c 0 b)) {}).right.isSome) :
    (result c).isSome := by
  have hgo := go_mono c 1 rest _ h0l h0r
  unfold result reduce
  rw [hlv]
  unfold reduce.go
  simp only []
  obtain ⟨h1, h2⟩ := hgo
  cases hL : (reduce.go c (0 + 1) rest _).left with
  | none => simp [hL] at h1
  | some L =>
    cases hR : (reduce.go c (0 + 1) rest _).right with
    | none => simp [hR] at h2
    | some R => simp only []; split <;> simp


/-! ### E. geometry of level 0 -/

theorem dx_zero (c : Cfg) : dx c 0 = c.d0 := by
  unfold dx pow2; simp

theorem absR_nonneg (x : Rat) : 0 ≤ absR x := by
  unfold absR; split <;> linarith

theorem close_refl (x : Rat) : close x x = true := by
  unfold close
  have h1 : absR (x - x) = 0 := by unfold absR; simp
  have h2 := absR_nonneg x
  rw [h1]
  simp only [decide_eq_true_eq]
  have : (0 : Rat) ≤ 1 / 100000 * absR x := by positivity
  linarith

theorem centre_mono (c : Cfg) (b : CBox) (j k : Nat) (hd : 0 < c.d0) (hjk : j ≤ k) :
    centre c 0 b j ≤ centre c 0 b k := by
  unfold centre
  rw [dx_zero]
  have : (j : Rat) ≤ k := by exact_mod_cast hjk
  nlinarith

/-- every position of the closed domain lies in some closed cell -/
theorem cell_exists (g d pos : Rat) (N : Nat) (hd : 0 < d) (hN : 0 < N)
    (h1 : g ≤ pos) (h2 : pos ≤ g + N * d) :
    ∃ i : Nat, i < N ∧ g + i * d ≤ pos ∧ pos ≤ g + ((i : Rat) + 1) * d := by
  induction N with
  | zero => omega
  | succ M ih =>
    by_cases hM : pos ≤ g + M * d
    · by_cases hM0 : M = 0
      · subst hM0
        exact ⟨0, by omega, by simpa using h1, by simp at hM ⊢; linarith⟩
      · obtain ⟨i, hi, h3, h4⟩ := ih (by omega) hM
        exact ⟨i, by omega, h3, h4⟩
    · refine ⟨M, by omega, by linarith, ?_⟩
      push_cast at h2
      linarith


theorem findIdx?_isSome (p : Nat → Bool) (n j : Nat) (hj : j < n) (hp : p j = true) :
    (findIdx? p n).isSome := by
  unfold findIdx?
  rw [List.find?_isSome]
  exact ⟨j, List.mem_range.mpr hj, hp⟩

theorem findLastIdx?_isSome (p : Nat → Bool) (n j : Nat) (hj : j < n) (hp : p j = true) :
    (findLastIdx? p n).isSome := by
  unfold findLastIdx?
  rw [List.find?_isSome]
  exact ⟨j, List.mem_reverse.mpr (List.mem_range.mpr hj), hp⟩

theorem findIdx?_none (p : Nat → Bool) (n : Nat) (h : findIdx? p n = none) : ∀ j < n, p j = false := by
  unfold findIdx? at h
  intro j hj
  have := List.find?_eq_none.mp h j (List.mem_range.mpr hj)
  simpa using this

/-- a box with a stored centre at or below the plane offers a left sample -/
theorem sliceBox_left (c : Cfg) (b : CBox) (k : Nat) (hd : 0 < c.d0)
    (hk : k < b.vals.length) (hle : centre c 0 b k ≤ c.pos) : (sliceBox c 0 b).1.isSome := by
  unfold sliceBox
  have hn : ¬ b.vals.length = 0 := by omega
  simp only [hn, if_false]
  by_cases h1 : c.pos > centre c 0 b (b.vals.length - 1)
  · simp [h1]
  · simp only [h1, if_false]
    have h0 : ¬ c.pos < centre c 0 b 0 := by
      have := centre_mono c b 0 k hd (by omega)
      intro h; linarith
    simp only [h0, if_false]
    cases hf : findIdx? (fun i => close c.pos (centre c 0 b i)) b.vals.length with
    | some i => simp
    | none =>
      have hnc := findIdx?_none _ _ hf
      -- not close to any centre, hence different from every centre
      have hne : ∀ j < b.vals.length, c.pos ≠ centre c 0 b j := by
        intro j hj he
        have := hnc j hj
        simp only [he, close_refl] at this
        exact absurd this (by simp)
      have hlast : (findLastIdx? (fun i => decide (c.pos > centre c 0 b i)) b.vals.length).isSome := by
        apply findLastIdx?_isSome _ _ k hk
        have := hne k hk
        simp only [decide_eq_true_eq]
        exact lt_of_le_of_ne hle (Ne.symm this)
      have hfirst : (findIdx? (fun i => decide (c.pos < centre c 0 b i)) b.vals.length).isSome := by
        apply findIdx?_isSome _ _ (b.vals.length - 1) (by omega)
        have := hne (b.vals.length - 1) (by omega)
        simp only [decide_eq_true_eq]
        exact lt_of_le_of_ne (not_lt.mp h1) this
      obtain ⟨il, hil⟩ := Option.isSome_iff_exists.mp hlast
      obtain ⟨ir, hir⟩ := Option.isSome_iff_exists.mp hfirst
      simp [hil, hir]

/-- a box with a stored centre at or above the plane offers a right sample -/
theorem sliceBox_right (c : Cfg) (b : CBox) (k : Nat) (hd : 0 < c.d0)
    (hk : k < b.vals.length) (hge : c.pos ≤ centre c 0 b k) : (sliceBox c 0 b).2.isSome := by
  unfold sliceBox
  have hn : ¬ b.vals.length = 0 := by omega
  simp only [hn, if_false]
  by_cases h1 : c.pos > centre c 0 b (b.vals.length - 1)
  · exfalso
    have := centre_mono c b k (b.vals.length - 1) hd (by omega)
    linarith
  · simp only [h1, if_false]
    by_cases h0 : c.pos < centre c 0 b 0
    · simp [h0]
    · simp only [h0, if_false]
      cases hf : findIdx? (fun i => close c.pos (centre c 0 b i)) b.vals.length with
      | some i => simp
      | none =>
        have hnc := findIdx?_none _ _ hf
        have hne : ∀ j < b.vals.length, c.pos ≠ centre c 0 b j := by
          intro j hj he
          have := hnc j hj
          simp only [he, close_refl] at this
          exact absurd this (by simp)
        have hlast : (findLastIdx? (fun i => decide (c.pos > centre c 0 b i)) b.vals.length).isSome := by
          apply findLastIdx?_isSome _ _ 0 (by omega)
          have := hne 0 (by omega)
          simp only [decide_eq_true_eq]
          exact lt_of_le_of_ne (not_lt.mp h0) (Ne.symm this)
        have hfirst : (findIdx? (fun i => decide (c.pos < centre c 0 b i)) b.vals.length).isSome := by
          apply findIdx?_isSome _ _ k hk
          have := hne k hk
          simp only [decide_eq_true_eq]
          exact lt_of_le_of_ne hge this
        obtain ⟨il, hil⟩ := Option.isSome_iff_exists.mp hlast
        obtain ⟨ir, hir⟩ := Option.isSome_iff_exists.mp hfirst
        simp [hil, hir]


theorem sliceBox_above (c : Cfg) (b : CBox) (hn : b.vals.length ≠ 0)
    (h1 : c.pos > centre c 0 b (b.vals.length - 1)) :
    (sliceBox c 0 b).1 = some ⟨b.vals.getD (b.vals.length - 1) 0, centre c 0 b (b.vals.length - 1)⟩ := by
  unfold sliceBox
  simp [hn, h1]

theorem sliceBox_below (c : Cfg) (b : CBox) (hd : 0 < c.d0) (hn : b.vals.length ≠ 0)
    (h0 : c.pos < centre c 0 b 0) :
    (sliceBox c 0 b).2 = some ⟨b.vals.getD 0 0, centre c 0 b 0⟩ := by
  unfold sliceBox
  have h1 : ¬ c.pos > centre c 0 b (b.vals.length - 1) := by
    have := centre_mono c b 0 (b.vals.length - 1) hd (by omega)
    intro h; linarith
  simp [hn, h1, h0]

/-- level 0 of a well-formed column: the boxes covering this pixel tile the cells `0 … N-1` -/
structure WF0 (c : Cfg) (bs : List CBox) (N : Nat) : Prop where
  fixed : c.fixed = true
  d0pos : 0 < c.d0
  Npos : 0 < N
  Gdef : c.G = c.g + N * c.d0
  inside : ∀ b ∈ bs, 0 ≤ b.a ∧ b.a + (b.vals.length : Int) ≤ N
  cover : ∀ i : Nat, i < N → ∃ b ∈ bs, b.a ≤ (i : Int) ∧ (i : Int) < b.a + (b.vals.length : Int)

theorem selected_iff (c : Cfg) (b : CBox) (hf : c.fixed = true) :
    selected c 0 b = true ↔
      (boxLo c 0 b - c.d0 / 2 ≤ c.pos ∧ c.pos ≤ boxHi c 0 b + c.d0 / 2) := by
  unfold selected
  simp [hf, dx_zero]

/-- global centre of cell `i` expressed through the box that stores it -/
theorem centre_of_cell (c : Cfg) (b : CBox) (i k : Nat) (hik : (i : Int) = b.a + k) :
    centre c 0 b k = c.g + ((i : Rat) + 1/2) * c.d0 := by
  unfold centre boxLo
  rw [dx_zero]
  have : (i : Rat) = (b.a : Rat) + (k : Rat) := by exact_mod_cast hik
  rw [this]; ring


theorem boxLo_eq (c : Cfg) (b : CBox) : boxLo c 0 b = c.g + (b.a : Rat) * c.d0 := by
  unfold boxLo; rw [dx_zero]

theorem boxHi_eq (c : Cfg) (b : CBox) :
    boxHi c 0 b = c.g + ((b.a : Rat) + (b.vals.length : Rat)) * c.d0 := by
  unfold boxHi; rw [dx_zero]

theorem level0_left (c : Cfg) (bs : List CBox) (N : Nat) (wf : WF0 c bs N)
    (h1 : c.g ≤ c.pos) (h2 : c.pos ≤ c.G) :
    ((bs.filter (selected c 0)).foldl (fun s b => absorb c 0 s (sliceBox c 0 b)) {}).left.isSome := by
  have hd := wf.d0pos
  obtain ⟨i, hiN, hlo, hhi⟩ := cell_exists c.g c.d0 c.pos N hd wf.Npos h1 (by rw [← wf.Gdef]; exact h2)
  by_cases hα : c.g + ((i : Rat) + 1/2) * c.d0 ≤ c.pos
  · -- (α) the box storing cell i has its centre i at or below the plane
    obtain ⟨b, hb, hba, hbl⟩ := wf.cover i hiN
    obtain ⟨k, hik⟩ : ∃ k : Nat, (i : Int) = b.a + k := ⟨(i - b.a).toNat, by omega⟩
    have hk : k < b.vals.length := by omega
    have hiR : (i : Rat) = (b.a : Rat) + (k : Rat) := by exact_mod_cast hik
    have hkR : (k : Rat) + 1 ≤ (b.vals.length : Rat) := by exact_mod_cast hk
    have hsel : selected c 0 b = true := by
      rw [selected_iff c b wf.fixed, boxLo_eq, boxHi_eq]
      constructor <;> nlinarith
    apply foldl_left_of_mem c 0 _ _ b (List.mem_filter.mpr ⟨hb, hsel⟩)
    intro s
    apply absorb_left_of_fst
    apply sliceBox_left c b k hd hk
    rw [centre_of_cell c b i k hik]; exact hα
  · have hα' : c.pos < c.g + ((i : Rat) + 1/2) * c.d0 := not_le.mp hα
    by_cases hi0 : i = 0
    · -- (γ) below the first centre of the domain: the face rule copies the right sample
      subst hi0
      obtain ⟨b, hb, hba, hbl⟩ := wf.cover 0 hiN
      have ha0 : b.a = 0 := by have := (wf.inside b hb).1; omega
      have hlen : b.vals.length ≠ 0 := by omega
      have hlenR : (1 : Rat) ≤ (b.vals.length : Rat) := by
        have : 1 ≤ b.vals.length := by omega
        exact_mod_cast this
      have hc0 : centre c 0 b 0 = c.g + c.d0 / 2 := by
        rw [centre_of_cell c b 0 0 (by omega)]; push_cast; ring
      have hsel : selected c 0 b = true := by
        rw [selected_iff c b wf.fixed, boxLo_eq, boxHi_eq, ha0]
        push_cast at hlo hhi hα' ⊢
        constructor <;> nlinarith
      apply foldl_left_of_mem c 0 _ _ b (List.mem_filter.mpr ⟨hb, hsel⟩)
      intro s
      have hbelow : c.pos < centre c 0 b 0 := by
        rw [hc0]; push_cast at hα'; linarith
      apply absorb_left_of_snd_first c 0 s _ _ (sliceBox_below c b hd hlen hbelow)
      simp only [dx_zero, hc0]
      exact close_refl _
    · -- (β) the box storing cell i-1 (selected thanks to the half-cell dilation)
      obtain ⟨j, rfl⟩ : ∃ j, i = j + 1 := ⟨i - 1, by omega⟩
      obtain ⟨b, hb, hba, hbl⟩ := wf.cover j (by omega)
      obtain ⟨k, hjk⟩ : ∃ k : Nat, (j : Int) = b.a + k := ⟨(j - b.a).toNat, by omega⟩
      have hk : k < b.vals.length := by omega
      have hjR : (j : Rat) = (b.a : Rat) + (k : Rat) := by exact_mod_cast hjk
      have hkR : (k : Rat) + 1 ≤ (b.vals.length : Rat) := by exact_mod_cast hk
      push_cast at hlo hhi hα'
      have hsel : selected c 0 b = true := by
        rw [selected_iff c b wf.fixed, boxLo_eq, boxHi_eq]
        constructor <;> nlinarith
      apply foldl_left_of_mem c 0 _ _ b (List.mem_filter.mpr ⟨hb, hsel⟩)
      intro s
      apply absorb_left_of_fst
      apply sliceBox_left c b k hd hk
      rw [centre_of_cell c b j k hjk]
      nlinarith


theorem level0_right (c : Cfg) (bs : List CBox) (N : Nat) (wf : WF0 c bs N)
    (h1 : c.g ≤ c.pos) (h2 : c.pos ≤ c.G) :
    ((bs.filter (selected c 0)).foldl (fun s b => absorb c 0 s (sliceBox c 0 b)) {}).right.isSome := by
  have hd := wf.d0pos
  obtain ⟨i, hiN, hlo, hhi⟩ := cell_exists c.g c.d0 c.pos N hd wf.Npos h1 (by rw [← wf.Gdef]; exact h2)
  by_cases hα : c.pos ≤ c.g + ((i : Rat) + 1/2) * c.d0
  · -- (α') the box storing cell i has its centre i at or above the plane
    obtain ⟨b, hb, hba, hbl⟩ := wf.cover i hiN
    obtain ⟨k, hik⟩ : ∃ k : Nat, (i : Int) = b.a + k := ⟨(i - b.a).toNat, by omega⟩
    have hk : k < b.vals.length := by omega
    have hiR : (i : Rat) = (b.a : Rat) + (k : Rat) := by exact_mod_cast hik
    have hkR : (k : Rat) + 1 ≤ (b.vals.length : Rat) := by exact_mod_cast hk
    have hsel : selected c 0 b = true := by
      rw [selected_iff c b wf.fixed, boxLo_eq, boxHi_eq]
      constructor <;> nlinarith
    apply foldl_right_of_mem c 0 _ _ b (List.mem_filter.mpr ⟨hb, hsel⟩)
    intro s
    apply absorb_right_of_snd
    apply sliceBox_right c b k hd hk
    rw [centre_of_cell c b i k hik]; exact hα
  · have hα' : c.g + ((i : Rat) + 1/2) * c.d0 < c.pos := not_le.mp hα
    by_cases hiL : i + 1 = N
    · -- (γ') above the last centre of the domain: the face rule copies the left sample
      obtain ⟨b, hb, hba, hbl⟩ := wf.cover i hiN
      have hend : b.a + (b.vals.length : Int) = N := by have := (wf.inside b hb).2; omega
      have hlen : b.vals.length ≠ 0 := by omega
      obtain ⟨k, hik⟩ : ∃ k : Nat, (i : Int) = b.a + k := ⟨(i - b.a).toNat, by omega⟩
      have hk : k = b.vals.length - 1 := by omega
      have hiR : (i : Rat) = (b.a : Rat) + (k : Rat) := by exact_mod_cast hik
      have hNR : (N : Rat) = (i : Rat) + 1 := by exact_mod_cast hiL.symm
      have hkR : (k : Rat) + 1 = (b.vals.length : Rat) := by
        have : k + 1 = b.vals.length := by omega
        exact_mod_cast this
      have hcl : centre c 0 b (b.vals.length - 1) = c.G - c.d0 / 2 := by
        rw [← hk, centre_of_cell c b i k hik, wf.Gdef, hNR]; ring
      have hsel : selected c 0 b = true := by
        rw [selected_iff c b wf.fixed, boxLo_eq, boxHi_eq]
        constructor <;> nlinarith
      apply foldl_right_of_mem c 0 _ _ b (List.mem_filter.mpr ⟨hb, hsel⟩)
      intro s
      have habove : c.pos > centre c 0 b (b.vals.length - 1) := by
        rw [hcl, wf.Gdef, hNR]; nlinarith
      apply absorb_right_of_fst_last c 0 s _ _ (sliceBox_above c b hlen habove)
      simp only [dx_zero, hcl]
      exact close_refl _
    · -- (β') the box storing cell i+1 (selected thanks to the half-cell dilation)
      obtain ⟨b, hb, hba, hbl⟩ := wf.cover (i + 1) (by omega)
      obtain ⟨k, hjk⟩ : ∃ k : Nat, ((i + 1 : Nat) : Int) = b.a + k := ⟨((i + 1 : Nat) - b.a).toNat, by omega⟩
      have hk : k < b.vals.length := by omega
      have hjR : ((i + 1 : Nat) : Rat) = (b.a : Rat) + (k : Rat) := by exact_mod_cast hjk
      have hkR : (k : Rat) + 1 ≤ (b.vals.length : Rat) := by exact_mod_cast hk
      push_cast at hjR
      have hsel : selected c 0 b = true := by
        rw [selected_iff c b wf.fixed, boxLo_eq, boxHi_eq]
        constructor <;> nlinarith
      apply foldl_right_of_mem c 0 _ _ b (List.mem_filter.mpr ⟨hb, hsel⟩)
      intro s
      apply absorb_right_of_snd
      apply sliceBox_right c b k hd hk
      rw [centre_of_cell c b (i + 1) k hjk]
      push_cast
      nlinarith

/-- **C07 `slice_initialised` (repaired slice).**  For every pixel whose level-0 boxes tile the
    domain along the normal, whatever the finer levels contain and wherever the plane lies in
    the closed domain, both interpolation samples are written before the pixel is computed:
    the result never depends on uninitialised memory. -/
theorem slice_initialised (c : Cfg) (bs : List CBox) (rest : List (List CBox)) (N : Nat)
    (hlv : c.levels = bs :: rest) (wf : WF0 c bs N) (h1 : c.g ≤ c.pos) (h2 : c.pos ≤ c.G) :
    (result c).isSome :=
  result_isSome_of_level0 c bs rest hlv (level0_left c bs N wf h1 h2) (level0_right c bs N wf h1 h2)

end Column
