/-! GENERATED from the Python sources by harness/translate.py on every run - do not edit. -/
namespace Generated

def utilsHeaderConst : String := "FAB ((8, (64 11 52 0 1 12 0 1023)),(8, (8 7 6 5 4 3 2 1)))"
def mandolineHeaderConst : String := "FAB ((8, (64 11 52 0 1 12 0 1023)),(8, (8 7 6 5 4 3 2 1)))"
def mandolineChunkBytes : Nat := 1000000
def stateFieldIndices : List (String × Int) := [("x_velocity", 0), ("y_velocity", 1), ("z_velocity", 2), ("density", 3), ("Y_start", 4), ("Y_end", -3), ("rhoh", -3), ("temp", -2), ("RhoRT", -1)]
def dataHasGhost : List (String × Bool) := [("I_R", false), ("divU", true), ("gradp", false), ("p", true), ("state", true)]
def chk2pltNameLists : List (List String) := [["x_velocity", "y_velocity", "z_velocity", "density"], ["rhoh", "temp", "RhoRT"], ["gradpx", "gradpy", "gradpz"]]
def chefCookbook : List (String × Option String) := [("HRR", some "heat_release_rate"), ("ENT", some "enthalpy_mass"), ("SRi", some "net_production_rates"), ("SDi", some "mix_diff_coeffs_mass"), ("RRi", some "net_rates_of_progress"), ("user", none)]
def chefCookfields : List (String × String) := [("HRR", "HeatRelease"), ("ENT", "Enthalpy"), ("SRi", "IRm"), ("RRi", "R"), ("SDi", "DI")]
def swallowedWriteSites : List (String × String × String) := []
def unorderedPoolCalls : List (String × String) := [("amr_kitchen/whip/cli.py", "main")]
def nonFortranReshapes : List (String × String × String) := []

end Generated
