import AmrK.WritersChef
/-! chk2plt at record level: the state binary files are scanned in disk order, each box's record is
    its interior state components followed by the pressure gradient and reaction-rate components
    read (by their own file and offset) for the *same box*, and the offsets are mapped back to
    box order. -/
namespace Writers

/-- the record chk2plt writes for box `i`; `gradp i` / `ir i` stand for the components of that
    box in the other data subsets (each located through its own level header) -/
def chkRec (boxes : List InBox) (gradp ir : Nat → List Int) (doG doR : Bool) (i : Nat) : Option OutRec :=
  boxes[i]?.map fun b =>
    let comps := b.comps ++ (if doG then gradp i else []) ++ (if doR then ir i else [])
    { box := i, comps := comps, size := b.canonLen - 1 + digits comps.length + b.ncells * 8 * comps.length }

/-- chk2plt, one level: one output file per state file, boxes in the state file's disk order -/
def chk2plt (boxes : List InBox) (gradp ir : Nat → List Int) (doG doR : Bool) : List OutBox :=
  assemble boxes ((unique (boxes.map (·.file))).map
    (ordEntry boxes (offsetOrder boxes) (chkRec boxes gradp ir doG doR)))

/-- **C17 core (layout part).**  Whatever the distribution and order of the boxes in the state files
    (and wherever the other subsets keep that box), entry `i` of the output level header points at a
    record that is box `i` and holds its state components followed by its own pressure-gradient and
    reaction-rate components. -/
theorem chk_data (boxes : List InBox) (gradp ir : Nat → List Int) (doG doR : Bool)
    (hsize : ∀ k r, chkRec boxes gradp ir doG doR k = some r → 0 < r.size)
    (i : Nat) (b : InBox) (hb : boxes[i]? = some b) :
    ∃ ob, (chk2plt boxes gradp ir doG doR)[i]? = some ob ∧ ob.file = b.file ∧
      ob.found = some (i, b.comps ++ (if doG then gradp i else []) ++ (if doR then ir i else [])) := by
  have hrec : ∀ k, k < boxes.length → ∃ r, chkRec boxes gradp ir doG doR k = some r ∧ r.box = k := by
    intro k hk
    have h1 : boxes[k]? = some boxes[k] := List.getElem?_eq_getElem hk
    refine ⟨_, by simp only [chkRec, h1, Option.map_some]; rfl, rfl⟩
  obtain ⟨ob, r, h1, h2, h3, h4⟩ :=
    assemble_data_ord boxes (offsetOrder boxes) (goodOrder_offset boxes) _ hrec hsize i b hb
  refine ⟨ob, h1, h2, ?_⟩
  rw [h4]
  simp only [chkRec, hb, Option.map_some, Option.some.injEq] at h3
  rw [← h3]

end Writers
