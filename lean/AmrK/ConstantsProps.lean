import AmrK.Obligations.HeaderLiteral
import AmrK.Obligations.MandolineLiteral
import AmrK.Obligations.ChkTables
import AmrK.Obligations.NoSwallow
import AmrK.Obligations.PoolCalls
import AmrK.Obligations.FortranOrder
/-! All obligations on the regenerated constants (each in its own module so that a broken one only
    breaks the properties that depend on it). -/
