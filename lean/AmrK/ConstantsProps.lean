import AmrK.Generated.Constants
import AmrK.CanonDefs
/-! Probe: obligations on the regenerated constants (re-checked on every run). -/
namespace Generated
/-- taste compares every FAB header but the first with `header_from_indices`; a 2D slice written by
    mandoline is only valid if its duplicated literal is the same text -/
theorem mandolineHeader_eq_utilsHeader : mandolineHeaderConst = utilsHeaderConst := by decide
theorem chunk_threshold : mandolineChunkBytes = 1000000 := by decide
/-- the state vector ends with rhoh, temp, RhoRT and the species sit between index 4 and -3 -/
theorem state_layout : stateFieldIndices.lookup "Y_start" = some 4 ∧ stateFieldIndices.lookup "Y_end" = some (-3)
    ∧ stateFieldIndices.lookup "rhoh" = some (-3) ∧ stateFieldIndices.lookup "temp" = some (-2)
    ∧ stateFieldIndices.lookup "RhoRT" = some (-1) := by decide
theorem output_names_match_state_order :
    chk2pltNameLists.head? = some ["x_velocity", "y_velocity", "z_velocity", "density"] ∧
    chk2pltNameLists[1]? = some ["rhoh", "temp", "RhoRT"] := by decide
end Generated

namespace Generated
/-- the byte-level printer of the model (`Py.canonB`, whose codec law `parse_canonB` is proved)
    starts with exactly the literal found in `utils.header_from_indices` -/
theorem utilsHeader_is_model_prefix :
    Py.ofString utilsHeaderConst = Py.sepJoin (Py.prefixToks.map (·, 32)) ++ Py.lastConst := by decide +kernel
end Generated
