import AmrK.PestleVF
import AmrK.PestleIntegral
import AmrK.Hyps
/-! The weighted call equals the plain integral of value × volume fraction, hence (C09) the sum over the
    uncovered cells of value × volume fraction × cell volume. -/
namespace Pestle

theorem sumMasked2_eq_go (data vf : List Rat) (m : List Bool) (a : Rat) :
    (List.zip (List.zip data vf) m).foldl (fun acc (vw, k) => if k then acc + vw.1 * vw.2 else acc) a =
    (List.zip (mul data vf) m).foldl (fun acc (v, k) => if k then acc + v else acc) a := by
  induction data generalizing vf m a with
  | nil => simp [mul]
  | cons d ds ih =>
    cases vf with
    | nil => simp [mul]
    | cons w ws =>
      cases m with
      | nil => simp [mul]
      | cons k ks =>
        simp only [mul, List.zip_cons_cons, List.zipWith_cons_cons, List.foldl_cons]
        exact ih ws ks _

/-- `np.sum(data[mask] * vf[mask])` is the masked sum of the products -/
theorem sumMasked2_eq (data vf : List Rat) (m : List Bool) : sumMasked2 data vf m = sumMasked (mul data vf) m :=
  sumMasked2_eq_go data vf m 0

theorem boxArrayAt_congr (bs : List WBox) (r : Nat) (e : List Nat) :
    boxArrayAt (bs.map WBox.plain) r e = boxArrayAt (bs.map WBox.weighted) r e := by
  simp only [boxArrayAt, List.length_map, List.zip_map_right, List.foldl_map]
  rfl

theorem mask_congr (fine : WLevel) (r : Nat) (b : WBox) :
    mask fine.plain r b.plain = mask fine.weighted r b.weighted := by
  have h : ∀ e, boxArrayAt fine.plain.boxes r e = boxArrayAt fine.weighted.boxes r e :=
    fun e => boxArrayAt_congr fine.boxes r e
  simp only [mask, WLevel.plain, WLevel.weighted] at h ⊢
  simp only [h]
  rfl

theorem workerMasked_eq (fine lv : WLevel) (r : Nat) (b : WBox) :
    workerMasked fine.plain r lv.plain b = boxMasked fine.weighted r lv.weighted b.weighted := by
  simp only [workerMasked, boxMasked, mask_congr]
  cases hv : b.vf with
  | none => simp [WBox.weighted, hv, WLevel.plain, WLevel.weighted, dV]
  | some w => simp [WBox.weighted, hv, sumMasked2_eq, WLevel.plain, WLevel.weighted, dV]

theorem levelMaskedW_eq (fine lv : WLevel) (r : Nat) (bs : List WBox) :
    levelMaskedW fine.plain r lv.plain bs = levelMasked fine.weighted r lv.weighted (bs.map WBox.weighted) := by
  induction bs with
  | nil => rfl
  | cons b bs ih => simp only [levelMaskedW, levelMasked, List.map_cons, workerMasked_eq, ih]

theorem levelFullW_eq (lv : WLevel) : levelFullW lv = levelFull lv.weighted := by
  simp only [levelFullW, levelFull, WLevel.weighted, List.map_map]
  congr 1
  apply List.map_congr_left
  intro b _
  simp only [Function.comp, workerFull, WBox.weighted, WLevel.plain, dV]
  cases b.vf <;> rfl

/-- **the weighted run is the plain run on value × volume fraction** (any resolution `r`) -/
theorem integralGoW_eq (r : Nat) : ∀ ls : List WLevel, integralGoW r ls = integralGo r (ls.map WLevel.weighted)
  | [] => rfl
  | [l] => by simp [integralGoW, integralGo, levelFullW_eq]
  | lv :: fine :: rest => by
    have ih := integralGoW_eq r (fine :: rest)
    simp only [List.map_cons] at ih
    simp only [integralGoW, List.map_cons, integralGo, levelMaskedW_eq, ih]
    rfl

theorem boxRez_congr (ls : List WLevel) :
    boxRez true (ls.map WLevel.plain) = boxRez true (ls.map WLevel.weighted) := by
  simp only [boxRez, if_true, List.flatMap_map, List.flatMap_assoc, WLevel.plain, WLevel.weighted]
  rfl

/-- the levels handed to the workers are the selected levels -/
theorem sel_weighted (names : List String) (field : String) (useVF : Bool) (limit : Option Nat)
    (lvls : List MLevel) (i : Nat) (hi : names.idxOf? field = some i) :
    (workerLevels names i useVF limit lvls).map WLevel.weighted = selected names field useVF limit lvls := by
  simp only [workerLevels, selected, hi, Option.getD_some, List.map_map]
  apply List.map_congr_left
  intro l _
  simp only [Function.comp, WLevel.weighted, List.map_map]
  congr 1
  apply List.map_congr_left
  intro b _
  simp only [Function.comp, WBox.weighted]
  cases (if useVF && names.contains "volFrac" then names.idxOf? "volFrac" else none) <;> rfl

/-- **`volume_integral` as called**: for a field of the plotfile, the result is the plain integral of
    value (× volume fraction of the same cell, when asked for and present) over levels `0 … limit` -/
theorem volumeIntegral_eq (names : List String) (field : String) (useVF : Bool) (limit : Option Nat)
    (lvls : List MLevel) (i : Nat) (hi : names.idxOf? field = some i) :
    volumeIntegral names field useVF limit lvls =
      integralGo (boxRez true (selected names field useVF limit lvls)) (selected names field useVF limit lvls) := by
  simp only [volumeIntegral, hi, Option.bind_eq_bind, Option.bind_some]
  rw [integralGoW_eq, boxRez_congr, sel_weighted names field useVF limit lvls i hi]

/-- an unknown field name is an error (Python's `KeyError`), never a number -/
theorem volumeIntegral_unknown (names : List String) (field : String) (useVF : Bool) (limit : Option Nat)
    (lvls : List MLevel) (h : field ∉ names) : volumeIntegral names field useVF limit lvls = none := by
  have : names.idxOf? field = none := List.idxOf?_eq_none_iff.mpr h
  simp [volumeIntegral, this]

/-- **C09 as called**: sum over the cells of levels `0 … limit` not covered by the next selected level of
    value × cell volume × (volume fraction when requested), under the checked alignment -/
theorem volumeIntegral_spec (names : List String) (field : String) (useVF : Bool) (limit : Option Nat)
    (lvls : List MLevel) (i : Nat) (hi : names.idxOf? field = some i)
    (hal : alignedAllB (boxRez true (selected names field useVF limit lvls)) (selected names field useVF limit lvls) = true) :
    volumeIntegral names field useVF limit lvls = some (integralSpec (selected names field useVF limit lvls)) := by
  rw [volumeIntegral_eq names field useVF limit lvls i hi]
  exact integral_of_checked _ _ hal

/-- the limit keeps levels `0 … limit` (all of them when the limit is absent or not below the finest) -/
theorem selected_length (names : List String) (field : String) (useVF : Bool) (limit : Option Nat) (lvls : List MLevel) :
    (selected names field useVF limit lvls).length =
      match limit with
      | some l => min (l + 1) lvls.length
      | none => lvls.length := by
  simp only [selected, List.length_map, List.length_take]
  cases limit with
  | none => simp [nSel]
  | some l =>
    simp only [nSel]
    split <;> omega

end Pestle
