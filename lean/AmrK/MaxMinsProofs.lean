import AmrK.MaxMins
import AmrK.CellHRewriteProofs
namespace MaxMins
open Py CellHRewrite

theorem split_row (vals : List Bytes) (hv : ∀ v ∈ vals, NoByte 44 v) : (splitOn 44 (rowText vals)).dropLast = vals := by
  have hs : splitOn 44 (rowText vals) = vals ++ [[]] := by
    rw [← joinSep_trailing]
    apply splitOn_joinSep
    · simp
    · intro p hp
      rcases List.mem_append.mp hp with h | h
      · exact hv p h
      · simp only [List.mem_singleton] at h
        subst h
        intro b hb
        cases hb
  rw [hs, List.dropLast_concat]

theorem readRows_spec (rows : List (List Bytes)) (hr : ∀ r ∈ rows, ∀ v ∈ r, NoByte 44 v) (rest : List Bytes) :
    readRows rows.length (rows.map rowText ++ rest) = some (rows, rest) := by
  induction rows with
  | nil => rfl
  | cons r rs ih =>
    simp only [List.length_cons, List.map_cons, List.cons_append, readRows]
    rw [ih (fun r' hr' => hr r' (by simp [hr'])), split_row r (hr r (by simp))]
    rfl

/-- **the tables are read back as they were written**: row `b` of each table is the list of values of box `b` -/
theorem readTables_spec (mins maxs : List (List Bytes)) (hlen : maxs.length = mins.length)
    (hmin : ∀ r ∈ mins, ∀ v ∈ r, NoByte 44 v) (hmax : ∀ r ∈ maxs, ∀ v ∈ r, NoByte 44 v)
    (b1 c1 b2 c2 : Bytes) (rest : List Bytes) :
    readTables mins.length (b1 :: c1 :: (mins.map rowText ++ (b2 :: c2 :: (maxs.map rowText ++ rest)))) = some (mins, maxs) := by
  simp only [readTables, readRows_spec mins hmin, Option.bind_eq_bind, Option.bind_some]
  rw [← hlen, readRows_spec maxs hmax]
  rfl

/-- **per-box minimum / maximum of every field**: the entry of field `k` (the `k`-th name) for box `b` is the `k`-th value of
    row `b` -/
theorem byField_entry (names : List Bytes) (rows : List (List Bytes)) (k : Nat) (nm : Bytes) (hk : names[k]? = some nm) :
    (byField names rows)[k]? = some (nm, rows.map (·.getD k [])) := by
  have hlt : k < names.length := by
    rcases Nat.lt_or_ge k names.length with h | h
    · exact h
    · rw [List.getElem?_eq_none h] at hk; cases hk
  simp only [byField, List.getElem?_map, List.getElem?_zipIdx, hk, Option.map_some, Nat.zero_add, column]

end MaxMins
