import AmrK.CanonDefs
/-! Probe: decimal printing and Python `int()` round trip, on bytes. -/
namespace Py

/-- value of a digit string read onto an accumulator -/
def readDigits (acc : Nat) : Bytes → Nat
  | [] => acc
  | b :: rest => readDigits (acc * 10 + (b.toNat - 48)) rest

def AllDigits (s : Bytes) : Prop := ∀ b ∈ s, isDigit b = true

theorem isDigit_digitByte (d : Nat) : isDigit (digitByte d) = true := by
  unfold isDigit digitByte
  have h : d % 10 < 10 := Nat.mod_lt _ (by omega)
  have : (48 + d % 10).toUInt8.toNat = 48 + d % 10 := by
    simp [Nat.toUInt8, UInt8.toNat_ofNat]; omega
  simp only [Bool.and_eq_true, decide_eq_true_eq, UInt8.le_iff_toNat_le, this]
  constructor <;> simp <;> omega

theorem digitByte_val (d : Nat) : (digitByte d).toNat - 48 = d % 10 := by
  unfold digitByte
  have h : d % 10 < 10 := Nat.mod_lt _ (by omega)
  have : (48 + d % 10).toUInt8.toNat = 48 + d % 10 := by
    simp [Nat.toUInt8, UInt8.toNat_ofNat]; omega
  omega

theorem go_digits (s : Bytes) (hs : AllDigits s) (acc : Nat) (pd : Bool) (hne : s ≠ [] ∨ pd = true) :
    digitsVal.go acc pd s = some (readDigits acc s) := by
  induction s generalizing acc pd with
  | nil =>
    rcases hne with h | h
    · exact absurd rfl h
    · subst h
      unfold digitsVal.go
      rfl
  | cons b rest ih =>
    have hb : isDigit b = true := hs b List.mem_cons_self
    have hrest : AllDigits rest := fun x hx => hs x (List.mem_cons_of_mem _ hx)
    have hstep : digitsVal.go acc pd (b :: rest) = digitsVal.go (acc * 10 + (b.toNat - 48)) true rest := by
      conv => lhs; unfold digitsVal.go
      simp only [hb, if_true]
    rw [hstep]
    show _ = some (readDigits (acc * 10 + (b.toNat - 48)) rest)
    exact ih hrest (acc * 10 + (b.toNat - 48)) true (Or.inr rfl)

theorem digitsVal_digits (s : Bytes) (hs : AllDigits s) (hne : s ≠ []) :
    digitsVal s = some (readDigits 0 s) := by
  cases s with
  | nil => exact absurd rfl hne
  | cons b rest =>
    show digitsVal.go 0 false (b :: rest) = _
    exact go_digits (b :: rest) hs 0 false (Or.inl (by simp))

theorem readDigits_append (acc : Nat) (a b : Bytes) : readDigits acc (a ++ b) = readDigits (readDigits acc a) b := by
  induction a generalizing acc with
  | nil => rfl
  | cons x a ih =>
    show readDigits (acc * 10 + (x.toNat - 48)) (a ++ b) = _
    exact ih _

/-- the printer's accumulator invariant: the digits produced so far stay at the end -/
theorem natBytesAux_spec (fuel n : Nat) (acc : Bytes) (hf : n < fuel) :
    ∃ ds, natBytesAux fuel n acc = ds ++ acc ∧ AllDigits ds ∧ ds ≠ [] ∧ ∀ a, readDigits a ds = a * 10 ^ ds.length + n := by
  induction fuel generalizing n acc with
  | zero => omega
  | succ fuel ih =>
    by_cases h0 : n / 10 = 0
    · have hstep : natBytesAux (fuel + 1) n acc = digitByte n :: acc := by
        show (if n / 10 = 0 then digitByte n :: acc else natBytesAux fuel (n / 10) (digitByte n :: acc)) = _
        rw [if_pos h0]
      rw [hstep]
      refine ⟨[digitByte n], rfl, ?_, by simp, ?_⟩
      · intro b hb
        have : b = digitByte n := by simpa using hb
        subst this; exact isDigit_digitByte n
      · intro a
        show a * 10 + ((digitByte n).toNat - 48) = a * 10 ^ 1 + n
        rw [digitByte_val]
        have : n % 10 = n := Nat.mod_eq_of_lt (by omega)
        omega
    · have hstep : natBytesAux (fuel + 1) n acc = natBytesAux fuel (n / 10) (digitByte n :: acc) := by
        show (if n / 10 = 0 then digitByte n :: acc else natBytesAux fuel (n / 10) (digitByte n :: acc)) = _
        rw [if_neg h0]
      rw [hstep]
      have hlt : n / 10 < fuel := by omega
      obtain ⟨ds, h1, h2, h3, h4⟩ := ih (n / 10) (digitByte n :: acc) hlt
      refine ⟨ds ++ [digitByte n], by rw [h1]; simp, ?_, by simp, ?_⟩
      · intro b hb
        rcases List.mem_append.mp hb with hb | hb
        · exact h2 b hb
        · have : b = digitByte n := by simpa using hb
          subst this; exact isDigit_digitByte n
      · intro a
        rw [readDigits_append, h4 a]
        show (a * 10 ^ ds.length + n / 10) * 10 + ((digitByte n).toNat - 48) = a * 10 ^ (ds ++ [digitByte n]).length + n
        rw [digitByte_val, List.length_append, List.length_singleton, Nat.pow_succ]
        have := Nat.div_add_mod n 10
        have e : (a * 10 ^ ds.length + n / 10) * 10 = a * (10 ^ ds.length * 10) + (n / 10) * 10 := by
          rw [Nat.add_mul, Nat.mul_assoc]
        omega

theorem natBytes_spec (n : Nat) : AllDigits (natBytes n) ∧ natBytes n ≠ [] ∧ readDigits 0 (natBytes n) = n := by
  unfold natBytes
  obtain ⟨ds, h1, h2, h3, h4⟩ := natBytesAux_spec (n + 1) n [] (by omega)
  rw [h1, List.append_nil]
  exact ⟨h2, h3, by rw [h4 0]; simp⟩

theorem digitsVal_natBytes (n : Nat) : digitsVal (natBytes n) = some n := by
  obtain ⟨h1, h2, h3⟩ := natBytes_spec n
  rw [digitsVal_digits _ h1 h2, h3]

end Py
