import AmrK.CodecNum
/-! Probe: `int(str(i)) == i` on bytes. -/
namespace Py

theorem isDigit_bounds (b : UInt8) (h : isDigit b = true) : 48 ≤ b.toNat ∧ b.toNat ≤ 57 := by
  unfold isDigit at h
  simp only [Bool.and_eq_true, decide_eq_true_eq, UInt8.le_iff_toNat_le] at h
  exact ⟨by simpa using h.1, by simpa using h.2⟩

theorem not_space_of_digit (b : UInt8) (h : isDigit b = true) : isSpace b = false := by
  obtain ⟨h1, h2⟩ := isDigit_bounds b h
  unfold isSpace
  have e1 : (b = 32) = False := by
    apply propext; constructor
    · intro e; subst e; simp at h1
    · intro f; exact f.elim
  have e2 : (b ≤ 13) = False := by
    apply propext; constructor
    · intro e; have := UInt8.le_iff_toNat_le.mp e; simp at this; omega
    · intro f; exact f.elim
  have e3 : (b ≤ 31) = False := by
    apply propext; constructor
    · intro e; have := UInt8.le_iff_toNat_le.mp e; simp at this; omega
    · intro f; exact f.elim
  simp [e1, e2, e3]

def NoSpace (s : Bytes) : Prop := ∀ b ∈ s, isSpace b = false

theorem dropWhile_noSpace (s : Bytes) (h : NoSpace s) : s.dropWhile isSpace = s := by
  cases s with
  | nil => rfl
  | cons b rest =>
    have := h b List.mem_cons_self
    simp [List.dropWhile_cons, this]

theorem strip_noSpace (s : Bytes) (h : NoSpace s) : strip s = s := by
  unfold strip
  rw [dropWhile_noSpace s h]
  have : NoSpace s.reverse := fun b hb => h b (List.mem_reverse.mp hb)
  rw [dropWhile_noSpace _ this, List.reverse_reverse]

theorem noSpace_digits (s : Bytes) (h : AllDigits s) : NoSpace s :=
  fun b hb => not_space_of_digit b (h b hb)

theorem pyInt_natBytes (n : Nat) : pyInt (natBytes n) = some (n : Int) := by
  obtain ⟨h1, h2, _⟩ := natBytes_spec n
  unfold pyInt
  rw [strip_noSpace _ (noSpace_digits _ h1)]
  cases hs : natBytes n with
  | nil => exact absurd hs h2
  | cons b rest =>
    have hb : isDigit b = true := h1 b (by rw [hs]; exact List.mem_cons_self)
    obtain ⟨hb1, hb2⟩ := isDigit_bounds b hb
    have hne45 : b ≠ 45 := by intro e; subst e; simp at hb1
    have hne43 : b ≠ 43 := by intro e; subst e; simp at hb1
    have hd := digitsVal_natBytes n
    rw [hs] at hd
    split
    · rename_i heq; cases heq
    · rename_i heq; simp only [List.cons.injEq] at heq; exact absurd heq.1 hne45
    · rename_i heq; simp only [List.cons.injEq] at heq; exact absurd heq.1 hne43
    · rw [hd]; rfl

theorem pyInt_intBytes (i : Int) : pyInt (intBytes i) = some i := by
  unfold intBytes
  by_cases hneg : i < 0
  · simp only [hneg, if_true]
    obtain ⟨h1, h2, _⟩ := natBytes_spec (-i).toNat
    unfold pyInt
    have hns : NoSpace (45 :: natBytes (-i).toNat) := by
      intro b hb
      rcases List.mem_cons.mp hb with rfl | hb
      · decide
      · exact noSpace_digits _ h1 b hb
    rw [strip_noSpace _ hns]
    show (digitsVal (natBytes (-i).toNat)).map (fun n => -(n : Int)) = some i
    rw [digitsVal_natBytes]
    show some (-(((-i).toNat : Nat) : Int)) = some i
    congr 1
    omega
  · simp only [hneg, if_false]
    rw [pyInt_natBytes]
    congr 1
    omega

end Py
