import AmrK.PestleIntegral
import AmrK.ColumnProofs
import AmrK.HypsModel
/-! Decidable forms of the hypotheses of the headline theorems, evaluated by the driver on every
    generated case: the evidence records on how many cases the theorem actually applies. -/
namespace Pestle

theorem aligned3B_sound (r : Nat) (fine : Level) (b : Box) (h : aligned3B r fine b = true) :
    ∃ l0 l1 l2 h0 h1 h2 g0 g1 g2, Aligned3 r fine b l0 l1 l2 h0 h1 h2 g0 g1 g2 := by
  unfold aligned3B at h
  split at h
  · rename_i l0 l1 l2 h0 h1 h2 g0 g1 g2 hlo hhi hg
    simp only [Bool.and_eq_true, decide_eq_true_eq, List.all_eq_true] at h
    obtain ⟨⟨⟨⟨⟨⟨⟨hr, he⟩, hgd⟩, hle⟩, halo⟩, hahi⟩, hin⟩, hf⟩ := h
    refine ⟨l0, l1, l2, h0, h1, h2, g0, g1, g2, ⟨hr, he, hg, hgd, hlo, hhi, hle, halo, hahi, hin, ?_⟩⟩
    intro fb hfb
    have := hf fb hfb
    split at this
    · rename_i a0 a1 a2 b0 b1 b2 ha hb
      simp only [decide_eq_true_eq] at this
      exact ⟨a0, a1, a2, b0, b1, b2, ha, hb, this⟩
    · cases this
  · cases h

theorem alignedAllB_sound (r : Nat) : ∀ lvls, alignedAllB r lvls = true → AlignedAll r lvls
  | [], _ => trivial
  | [_], _ => trivial
  | lv :: fine :: rest, h => by
    simp only [alignedAllB, Bool.and_eq_true, List.all_eq_true] at h
    exact ⟨fun b hb => aligned3B_sound r fine b (h.1 b hb), alignedAllB_sound r (fine :: rest) h.2⟩

/-- **checked hypothesis ⟹ conclusion**: whenever the driver reports `aligned`, the model's integral
    is the sum over the uncovered cells -/
theorem integral_of_checked (r : Nat) (lvls : List Level) (h : alignedAllB r lvls = true) :
    integralGo r lvls = some (integralSpec lvls) :=
  integralGo_eq_spec r lvls (alignedAllB_sound r lvls h)

end Pestle

namespace Column

theorem wf0B_sound (c : Cfg) (N : Nat) (h : wf0B c N = true) :
    ∃ bs rest, c.levels = bs :: rest ∧ WF0 c bs N := by
  unfold wf0B at h
  split at h
  · rename_i bs rest hl
    simp only [Bool.and_eq_true, decide_eq_true_eq, List.all_eq_true, List.any_eq_true, List.mem_range] at h
    obtain ⟨⟨⟨⟨⟨hf, hd⟩, hN⟩, hG⟩, hin⟩, hcov⟩ := h
    exact ⟨bs, rest, hl, ⟨hf, hd, hN, hG, hin, fun i hi => by
      obtain ⟨b, hb, hc⟩ := hcov i hi
      exact ⟨b, hb, hc⟩⟩⟩
  · cases h

/-- **checked hypothesis ⟹ conclusion**: whenever the driver reports `wf0` for a column and the
    position lies in the closed domain, the pixel is computed from stored data only -/
theorem initialised_of_checked (c : Cfg) (N : Nat) (h : wf0B c N = true) (h1 : c.g ≤ c.pos) (h2 : c.pos ≤ c.G) :
    (result c).isSome := by
  obtain ⟨bs, rest, hl, wf⟩ := wf0B_sound c N h
  exact slice_initialised c bs rest N hl wf h1 h2

end Column
