import AmrK.WritersProofs
/-! Probe: one generic data theorem for every per-file writer, instantiated for repaired combine. -/
namespace Writers
open Col

def genEntry (boxes : List InBox) (recF : Nat → Option OutRec) (f : String) :
    String × List Nat × List OutRec :=
  (f, idxsOf boxes f, (idxsOf boxes f).filterMap recF)

/-- Generic form: a writer that rewrites every input file with one record per box of that file
    (in box order), records the `tell()` positions and re-maps them to box order, ends with a
    level header whose entry `i` points at the record written for box `i`. -/
theorem assemble_data (boxes : List InBox) (recF : Nat → Option OutRec)
    (hrec : ∀ k, k < boxes.length → ∃ r, recF k = some r ∧ r.box = k)
    (hsize : ∀ k r, recF k = some r → 0 < r.size)
    (i : Nat) (b : InBox) (hb : boxes[i]? = some b) :
    ∃ ob r, (assemble boxes ((unique (boxes.map (·.file))).map (genEntry boxes recF)))[i]? = some ob ∧
      ob.file = b.file ∧ recF i = some r ∧ ob.found = some (i, r.comps) := by
  have hi : i < boxes.length := by
    rcases Nat.lt_or_ge i boxes.length with h | h
    · exact h
    · rw [List.getElem?_eq_none h] at hb; cases hb
  obtain ⟨ri, hri, hribox⟩ := hrec i hi
  unfold assemble
  simp only [List.getElem?_map, List.getElem?_range hi, Option.map_some, hb, Option.getD_some]
  refine ⟨_, ri, rfl, rfl, hri, ?_⟩
  let I := idxsOf boxes b.file
  let R := I.filterMap recF
  have hmemI : i ∈ I := (mem_idxsOf boxes b.file i).mpr ⟨b, hb, rfl⟩
  obtain ⟨j, hj⟩ := List.getElem?_of_mem hmemI
  have hlt : ∀ k ∈ I, k < boxes.length := by
    intro k hk
    obtain ⟨bk, hbk, _⟩ := (mem_idxsOf boxes b.file k).mp hk
    rcases Nat.lt_or_ge k boxes.length with h | h
    · exact h
    · rw [List.getElem?_eq_none h] at hbk; cases hbk
  have hRmap : R = I.map fun k => (recF k).getD ⟨0, [], 0⟩ := by
    apply filterMap_all_some
    intro k hk
    obtain ⟨r, hr, _⟩ := hrec k (hlt k hk)
    simp [hr]
  have hRj : R[j]? = some ri := by
    rw [hRmap, List.getElem?_map, hj]; simp [hri]
  have hlenT : (tellsOf R).length = I.length := by
    unfold tellsOf; rw [tellsGo_length, hRmap, List.length_map]
  have hjlt : j < I.length := by
    rcases Nat.lt_or_ge j I.length with h | h
    · exact h
    · rw [List.getElem?_eq_none h] at hj; cases hj
  obtain ⟨o, ho⟩ : ∃ o, (tellsOf R)[j]? = some o :=
    ⟨(tellsOf R)[j]'(by omega), List.getElem?_eq_getElem (by omega)⟩
  have hRpos : ∀ r ∈ R, 0 < r.size := by
    intro r hr
    obtain ⟨k, _, hk⟩ := List.mem_filterMap.mp hr
    exact hsize k r hk
  have hfile : b.file ∈ unique (boxes.map (·.file)) :=
    (mem_unique _ _).mpr (List.mem_map.mpr ⟨b, List.mem_of_getElem? hb, rfl⟩)
  have hsame : ∀ e ∈ (unique (boxes.map (·.file))).map (genEntry boxes recF),
      i ∈ e.2.1 → e.2.1 = I ∧ tellsOf e.2.2 = tellsOf R := by
    intro e he hie
    obtain ⟨f, _, rfl⟩ := List.mem_map.mp he
    simp only [genEntry] at hie ⊢
    obtain ⟨b', hb', hf'⟩ := (mem_idxsOf boxes f i).mp hie
    rw [hb] at hb'; cases hb'
    subst hf'
    exact ⟨rfl, rfl⟩
  have hex : ∃ e ∈ (unique (boxes.map (·.file))).map (genEntry boxes recF), i ∈ e.2.1 :=
    ⟨genEntry boxes recF b.file, List.mem_map.mpr ⟨b.file, hfile, rfl⟩, hmemI⟩
  have hmapped := foldl_scatter ((unique (boxes.map (·.file))).map (genEntry boxes recF))
    (fun _ => none) I (tellsOf R) i j o (nodup_idxsOf boxes b.file) hj ho hsame
  simp only [hex, if_true] at hmapped
  have hfind : (((unique (boxes.map (·.file))).map (genEntry boxes recF)).find? (·.1 == b.file))
      = some (genEntry boxes recF b.file) := by
    cases hf : ((unique (boxes.map (·.file))).map (genEntry boxes recF)).find? (·.1 == b.file) with
    | none =>
      have := List.find?_eq_none.mp hf (genEntry boxes recF b.file) (List.mem_map.mpr ⟨b.file, hfile, rfl⟩)
      simp [genEntry] at this
    | some e =>
      have h1 := List.find?_some hf
      obtain ⟨f, _, rfl⟩ := List.mem_map.mp (List.mem_of_find?_eq_some hf)
      simp only [genEntry, beq_iff_eq] at h1
      subst h1; rfl
  simp only [hmapped, Option.getD_some, hfind, Option.map_some, genEntry]
  rw [recAtOf_tells R hRpos j o ho, hRj]
  simp [hribox]

/-- the record repaired combine writes for box `i` -/
def cmbRec (b1 b2 : List InBox) (v1 v2 : List Nat) (i : Nat) : Option OutRec := do
  let x ← b1[i]?
  let y ← b2[i]?
  pure { box := i, comps := v1.filterMap (x.comps[·]?) ++ v2.filterMap (y.comps[·]?),
         size := x.canonLen - 1 + digits (v1.length + v2.length) + x.ncells * 8 * (v1.length + v2.length) }

theorem combineLevel_eq (mode : Bool) (b1 b2 : List InBox) (v1 v2 : List Nat) :
    combineLevel mode b1 b2 v1 v2
      = assemble b1 ((unique (b1.map (·.file))).map (genEntry b1 (cmbRec b1 b2 v1 v2))) := by
  unfold combineLevel genEntry cmbRec
  cases mode <;> rfl

/-- **C06 core (repaired combine).**  Whatever the two inputs' distributions of boxes over files
    and orders inside the files, and in either combination mode, entry `i` of the output level
    header points at a record that is box `i` and holds the selected components of box `i` of
    the first input followed by those of box `i` of the second. -/
theorem combine_data (mode : Bool) (b1 b2 : List InBox) (v1 v2 : List Nat)
    (hlen : b1.length = b2.length)
    (hsize : ∀ k r, cmbRec b1 b2 v1 v2 k = some r → 0 < r.size)
    (i : Nat) (x y : InBox) (hx : b1[i]? = some x) (hy : b2[i]? = some y) :
    ∃ ob, (combineLevel mode b1 b2 v1 v2)[i]? = some ob ∧ ob.file = x.file ∧
      ob.found = some (i, v1.filterMap (x.comps[·]?) ++ v2.filterMap (y.comps[·]?)) := by
  rw [combineLevel_eq]
  have hrec : ∀ k, k < b1.length → ∃ r, cmbRec b1 b2 v1 v2 k = some r ∧ r.box = k := by
    intro k hk
    have h1 : b1[k]? = some b1[k] := List.getElem?_eq_getElem hk
    have h2 : b2[k]? = some (b2[k]'(by omega)) := List.getElem?_eq_getElem (by omega)
    refine ⟨{ box := k, comps := v1.filterMap (b1[k].comps[·]?) ++ v2.filterMap ((b2[k]'(by omega)).comps[·]?),
              size := b1[k].canonLen - 1 + digits (v1.length + v2.length) + b1[k].ncells * 8 * (v1.length + v2.length) },
            by simp [cmbRec, h1, h2], rfl⟩
  obtain ⟨ob, r, h1, h2, h3, h4⟩ := assemble_data b1 (cmbRec b1 b2 v1 v2) hrec hsize i x hx
  refine ⟨ob, h1, h2, ?_⟩
  rw [h4]
  simp [cmbRec, hx, hy] at h3
  rw [← h3]

end Writers
