/-! Which boxes of a level a plotfile-format slice lists (`write_cell_data_at_level`, repaired test): the box whose
    extent along the normal is `[lo, hi]` is taken iff `lo ≤ pos` and (`pos < hi` or `hi` is the upper domain face).
    Exact rationals (`np.isclose(hi, G)` is equality here).  Core-only. -/
namespace Meets

def meets (G pos lo hi : Rat) : Bool := decide (lo ≤ pos) && (decide (pos < hi) || decide (hi = G))

/-- consecutive boxes along the normal through one in-plane cell: faces `f₀ < f₁ < … < fₙ`, boxes `[fᵢ, fᵢ₊₁]` -/
def stack : List Rat → List (Rat × Rat)
  | a :: b :: rest => (a, b) :: stack (b :: rest)
  | _ => []

/-- the boxes of a stack the plane selects -/
def selected (G pos : Rat) (fs : List Rat) : List (Rat × Rat) := (stack fs).filter fun b => meets G pos b.1 b.2

end Meets
