import AmrK.ReaderR
import AmrK.ReaderProofs
import AmrK.SliceLemmas
/-! Probe: the repaired reader returns exactly the selected component blocks (C01 core). -/
namespace ReaderR
open Py Taste Reader

/-- the `j`-th component block of a payload of blocks of `n` cells -/
def block (payload : Bytes) (n j : Nat) : Bytes := (payload.drop (j * (n * 8))).take (n * 8)

theorem drop_take_block (l : Bytes) (m a b : Nat) (h : a + b ≤ m) :
    ((l.take m).drop a).take b = (l.drop a).take b := by
  rw [List.drop_take, List.take_take]
  congr 1
  omega

/-- reading `k` blocks starting at block `first` of a payload that sits after `pre ++ line` -/
theorem windowR_blocks (pre line payload post : Bytes) (n nf first k : Nat)
    (hlen : payload.length = n * nf * 8) (hfk : first + k ≤ nf) :
    windowR (pre ++ line ++ payload ++ post) (pre.length + line.length) n first k
      = some ((List.range k).map fun j => block payload n (first + j)) := by
  unfold windowR
  have hroom : n * first * 8 + n * k * 8 ≤ payload.length := by
    rw [hlen]
    have : n * (first + k) ≤ n * nf := Nat.mul_le_mul_left n hfk
    have e : n * first * 8 + n * k * 8 = n * (first + k) * 8 := by
      rw [Nat.mul_add, Nat.add_mul]
    rw [e]; exact Nat.mul_le_mul_right 8 this
  have hd : (pre ++ line ++ payload ++ post).drop (pre.length + line.length + n * first * 8)
      = payload.drop (n * first * 8) ++ post := by
    have := Reader.drop_prefix (pre ++ line) payload post (n * first * 8) (by omega)
    simpa [List.append_assoc, Nat.add_assoc] using this
  rw [hd]
  have htake : (payload.drop (n * first * 8) ++ post).take (n * k * 8)
      = (payload.drop (n * first * 8)).take (n * k * 8) := by
    apply List.take_append_of_le_length
    simp only [List.length_drop]; omega
  rw [htake]
  have hl : ((payload.drop (n * first * 8)).take (n * k * 8)).length = n * k * 8 := by
    simp only [List.length_take, List.length_drop]; omega
  simp only [hl, Nat.lt_irrefl, if_false]
  congr 1
  apply List.map_congr_left
  intro j hj
  have hjk : j < k := List.mem_range.mp hj
  unfold block
  -- drop (j*(n*8)) of take (n*k*8) of drop (n*first*8) payload
  have hjn : j * (n * 8) + n * 8 ≤ n * k * 8 := by
    have : (j + 1) * (n * 8) ≤ k * (n * 8) := Nat.mul_le_mul_right _ hjk
    have e1 : (j + 1) * (n * 8) = j * (n * 8) + n * 8 := by rw [Nat.add_mul, Nat.one_mul]
    have e2 : k * (n * 8) = n * k * 8 := by ac_rfl
    omega
  rw [drop_take_block _ _ _ _ hjn, List.drop_drop]
  congr 2
  have : (first + j) * (n * 8) = n * first * 8 + j * (n * 8) := by
    rw [Nat.add_mul]; congr 1
    ac_rfl
  omega



theorem foldl_min_le (l : List Nat) (a : Nat) : l.foldl min a ≤ a ∧ ∀ x ∈ l, l.foldl min a ≤ x := by
  induction l generalizing a with
  | nil => simp
  | cons y l ih =>
    simp only [List.foldl_cons]
    obtain ⟨h1, h2⟩ := ih (min a y)
    refine ⟨Nat.le_trans h1 (Nat.min_le_left _ _), ?_⟩
    intro x hx
    rcases List.mem_cons.mp hx with rfl | hx
    · exact Nat.le_trans h1 (Nat.min_le_right _ _)
    · exact h2 x hx

theorem listMin_le (l : List Nat) : ∀ x ∈ l, listMin l ≤ x := by
  intro x hx
  unfold listMin
  exact (foldl_min_le l _).2 x hx

theorem le_foldl_max (l : List Nat) (a : Nat) : a ≤ l.foldl max a ∧ ∀ x ∈ l, x ≤ l.foldl max a := by
  induction l generalizing a with
  | nil => simp
  | cons y l ih =>
    simp only [List.foldl_cons]
    obtain ⟨h1, h2⟩ := ih (max a y)
    refine ⟨Nat.le_trans (Nat.le_max_left _ _) h1, ?_⟩
    intro x hx
    rcases List.mem_cons.mp hx with rfl | hx
    · exact Nat.le_trans (Nat.le_max_right _ _) h1
    · exact h2 x hx

theorem le_listMax (l : List Nat) : ∀ x ∈ l, x ≤ listMax l := (le_foldl_max l 0).2

theorem foldl_max_lt (l : List Nat) (a b : Nat) (ha : a < b) (hl : ∀ x ∈ l, x < b) : l.foldl max a < b := by
  induction l generalizing a with
  | nil => simpa
  | cons y l ih =>
    simp only [List.foldl_cons]
    apply ih
    · have := hl y (by simp); omega
    · intro x hx; exact hl x (by simp [hx])

theorem mapM_some {α β : Type} (f : α → Option β) (g : α → β) (l : List α)
    (hfg : ∀ x ∈ l, f x = some (g x)) : l.mapM f = some (l.map g) := by
  induction l with
  | nil => rfl
  | cons x l ih =>
    rw [List.mapM_cons, hfg x (by simp), ih (fun y hy => hfg y (by simp [hy]))]
    rfl

/-- common prelude: a FAB whose header line sits at `pre.length` -/
theorem readBoxR_prelude (pre line payload post : Bytes) (h : Hdr) (n : Nat)
    (hl : Reader.IsLine line) (hp : parseFabHeader line = some h) (hcells : ncells h = (n : Int)) (hn : 0 < n)
    (fa : FArg) :
    readBoxR (pre ++ line ++ payload ++ post) pre.length fa =
      (match fa with
      | .idx i =>
        if i < 0 then none else
        (windowR (pre ++ line ++ payload ++ post) (pre.length + line.length) n i.toNat 1).bind fun w =>
          some ⟨spatial h, w⟩
      | .slice a b c =>
        (sliceIndices a b c h.nf).bind fun (s, e, st) =>
          let size := max (e - s) 0
          if s < 0 then none else
          (windowR (pre ++ line ++ payload ++ post) (pre.length + line.length) n s.toNat size.toNat).bind fun w =>
            ((pyRange 0 size st).mapM fun j => w[j.toNat]?).bind fun comps =>
              some ⟨spatial h ++ [(comps.length : Int)], comps⟩
      | .list l =>
        if l.any (· < 0) then none else
        let ln := l.map Int.toNat
        let first := listMin ln
        let diff := listMax ln - first + 1
        (windowR (pre ++ line ++ payload ++ post) (pre.length + line.length) n first diff).bind fun w =>
          (ln.mapM fun j => w[j - first]?).bind fun comps =>
            some ⟨spatial h ++ [(comps.length : Int)], comps⟩) := by
  unfold readBoxR
  have hdrop : (pre ++ line ++ payload ++ post).drop pre.length = line ++ (payload ++ post) := by
    simp [List.append_assoc]
  have hnpos : ¬ ((n : Int) ≤ 0) := by omega
  simp only [hdrop, Reader.lineOf_line line _ hl, hp]
  cases fa <;>
    simp [Option.bind_eq_bind, Option.pure_def, Option.bind_some, bind, pure, hcells, hnpos, Int.toNat_natCast] <;>
    (intros; omega)


section Located
variable (pre line payload post : Bytes) (h : Hdr) (n nf : Nat)
variable (hl : Reader.IsLine line) (hp : parseFabHeader line = some h)
variable (hcells : ncells h = (n : Int)) (hn : 0 < n) (hnf : h.nf = (nf : Int))
variable (hlen : payload.length = n * nf * 8)
include hl hp hcells hn hlen

/-- C01, integer selector (negative indices count from the last field) -/
theorem readR_idx (i : Int) (hlo : -(nf : Int) ≤ i) (hhi : i < (nf : Int)) :
    readR (pre ++ line ++ payload ++ post) pre.length (nf : Int) (.idx i)
      = some ⟨spatial h, [block payload n (i % (nf : Int)).toNat]⟩ := by
  have hnfpos : (0 : Int) < nf := by omega
  have hm0 : 0 ≤ i % (nf : Int) := Int.emod_nonneg _ (by omega)
  have hm1 : i % (nf : Int) < nf := Int.emod_lt_of_pos _ hnfpos
  unfold readR normalise
  have hc : (decide (-(nf : Int) ≤ i) && decide (i < (nf : Int))) = true := by simp [hlo, hhi]
  simp only [hc, if_true, Option.bind_some]
  rw [readBoxR_prelude pre line payload post h n hl hp hcells hn]
  have hneg : ¬ (i % (nf : Int) < 0) := by omega
  simp only [hneg, if_false]
  have hk : (i % (nf : Int)).toNat + 1 ≤ nf := by omega
  rw [windowR_blocks pre line payload post n nf _ 1 hlen hk]
  simp


/-- C01, index-list selector: any order, repeats and negative indices allowed -/
theorem readR_list (l : List Int) (hne : l ≠ []) (hall : ∀ i ∈ l, -(nf : Int) ≤ i ∧ i < (nf : Int)) :
    readR (pre ++ line ++ payload ++ post) pre.length (nf : Int) (.list l)
      = some ⟨spatial h ++ [(l.length : Int)], l.map fun i => block payload n (i % (nf : Int)).toNat⟩ := by
  obtain ⟨i0, hi0⟩ := List.exists_mem_of_ne_nil l hne
  have hnfpos : (0 : Int) < nf := by have := hall i0 hi0; omega
  unfold readR normalise
  have hc : (!l.isEmpty && l.all fun i => decide (-(nf : Int) ≤ i) && decide (i < (nf : Int))) = true := by
    have h1 : l.isEmpty = false := by cases l <;> simp_all
    simp only [h1, Bool.not_false, Bool.true_and, List.all_eq_true, Bool.and_eq_true, decide_eq_true_eq]
    exact hall
  simp only [hc, if_true, Option.bind_some]
  rw [readBoxR_prelude pre line payload post h n hl hp hcells hn]
  -- the normalised list
  have hnn : ∀ x ∈ l.map (· % (nf : Int)), 0 ≤ x ∧ x < (nf : Int) := by
    intro x hx
    obtain ⟨i, _, rfl⟩ := List.mem_map.mp hx
    exact ⟨Int.emod_nonneg _ (by omega), Int.emod_lt_of_pos _ hnfpos⟩
  have hany : (l.map (· % (nf : Int))).any (· < 0) = false := by
    simp only [List.any_eq_false, decide_eq_true_eq]
    intro x hx; have := (hnn x hx).1; omega
  simp only [hany, Bool.false_eq_true, if_false]
  -- window
  have hln : ∀ j ∈ (l.map (· % (nf : Int))).map Int.toNat, j < nf := by
    intro j hj
    obtain ⟨x, hx, rfl⟩ := List.mem_map.mp hj
    have := hnn x hx; omega
  have hmaxlt : listMax ((l.map (· % (nf : Int))).map Int.toNat) < nf :=
    foldl_max_lt _ 0 nf (by omega) hln
  have hj0 : (i0 % (nf : Int)).toNat ∈ (l.map (· % (nf : Int))).map Int.toNat :=
    List.mem_map.mpr ⟨i0 % (nf : Int), List.mem_map.mpr ⟨i0, hi0, rfl⟩, rfl⟩
  have hminmax : listMin ((l.map (· % (nf : Int))).map Int.toNat) ≤ listMax ((l.map (· % (nf : Int))).map Int.toNat) :=
    Nat.le_trans (listMin_le _ _ hj0) (le_listMax _ _ hj0)
  rw [windowR_blocks pre line payload post n nf _ _ hlen (by omega)]
  simp only [Option.bind_some]
  rw [mapM_some _ (fun j => block payload n j)]
  · simp [List.map_map, Function.comp_def]
  · intro j hj
    have h1 := listMin_le _ j hj
    have h2 := le_listMax _ j hj
    rw [List.getElem?_map, List.getElem?_range (by omega)]
    simp only [Option.map_some]
    congr 2
    omega


include hnf in
/-- C01, forward-slice selector: exactly the components `range(*slice.indices(nfields))` -/
theorem readR_slice (a b c : Option Int) (hc : ∀ st, c = some st → 0 < st) :
    ∃ s e st, sliceIndices a b c (nf : Int) = some (s, e, st) ∧
      readR (pre ++ line ++ payload ++ post) pre.length (nf : Int) (.slice a b c)
        = some ⟨spatial h ++ [((pyRange s e st).length : Int)],
                (pyRange s e st).map fun i => block payload n i.toNat⟩ := by
  obtain ⟨s, e, st, hsi, _, hst, hs0, hsn, he0, hen⟩ := sliceIndices_pos a b c (nf : Int) (by omega) hc
  refine ⟨s, e, st, hsi, ?_⟩
  unfold readR
  have hnorm : normalise (nf : Int) (.slice a b c) = some (.slice a b c) := by
    unfold normalise
    cases c with
    | none => rfl
    | some st' =>
      have := hc st' rfl
      have : ¬ st' ≤ 0 := by omega
      simp [this]
  rw [hnorm, Option.bind_some, readBoxR_prelude pre line payload post h n hl hp hcells hn]
  simp only [hnf, hsi, Option.bind_some]
  have hsneg : ¬ s < 0 := by omega
  simp only [hsneg, if_false]
  -- the window
  have hk : s.toNat + (max (e - s) 0).toNat ≤ nf := by omega
  rw [windowR_blocks pre line payload post n nf _ _ hlen hk]
  simp only [Option.bind_some]
  -- the selection inside the window
  rw [mapM_some _ (fun j => block payload n (s.toNat + j.toNat))]
  · simp only [Option.bind_some]
    have hmap : (pyRange 0 (max (e - s) 0) st).map (fun j => block payload n (s.toNat + j.toNat))
        = (pyRange s e st).map fun i => block payload n i.toNat := by
      rw [pyRange_pos _ _ _ hst, pyRange_pos _ _ _ hst, List.map_map, List.map_map]
      have hlen' := range_len_eq s e st hst
      simp only [Int.sub_zero]
      rw [hlen']
      apply List.map_congr_left
      intro k _
      simp only [Function.comp_def, Int.zero_add]
      congr 1
      have hkst : 0 ≤ (k : Int) * st := Int.mul_nonneg (by omega) (by omega)
      omega
    rw [hmap]
    simp
  · intro j hj
    rw [pyRange_pos _ _ _ hst] at hj
    obtain ⟨k, hkmem, rfl⟩ := List.mem_map.mp hj
    have hklt := List.mem_range.mp hkmem
    simp only [Int.sub_zero] at hklt
    have hlt := range_elem_lt (max (e - s) 0) st hst k hklt
    have hkst : 0 ≤ (k : Int) * st := Int.mul_nonneg (by omega) (by omega)
    simp only [Int.zero_add]
    rw [List.getElem?_map, List.getElem?_range (by omega)]
    simp


/-- the components a selector denotes (Python/numpy meaning), `none` when the reader refuses it -/
def selected (nf : Nat) : FArg → Option (List Nat)
  | .idx i => if -(nf : Int) ≤ i ∧ i < (nf : Int) then some [(i % (nf : Int)).toNat] else none
  | .list l =>
    if l ≠ [] ∧ ∀ i ∈ l, -(nf : Int) ≤ i ∧ i < (nf : Int) then some (l.map fun i => (i % (nf : Int)).toNat) else none
  | .slice a b c =>
    if ∀ st, c = some st → 0 < st then
      (sliceIndices a b c (nf : Int)).map fun (s, e, st) => (pyRange s e st).map Int.toNat
    else none

include hnf in
/-- **C01 (repaired reader), closing statement.**  For *every* field selector the reader either
    refuses, or returns exactly the component blocks the selector denotes, in the order
    requested, with the spatial shape of the FAB header — never another field or shape. -/
theorem readR_refuse_or_exact (fa : FArg) :
    match selected nf fa with
    | none => readR (pre ++ line ++ payload ++ post) pre.length (nf : Int) fa = none
    | some sel => ∃ shape, readR (pre ++ line ++ payload ++ post) pre.length (nf : Int) fa
        = some ⟨shape, sel.map (block payload n)⟩ := by
  cases fa with
  | idx i =>
    simp only [selected]
    by_cases hr : -(nf : Int) ≤ i ∧ i < (nf : Int)
    · rw [if_pos hr]
      exact ⟨_, by rw [readR_idx pre line payload post h n nf hl hp hcells hn hlen i hr.1 hr.2]; rfl⟩
    · rw [if_neg hr]
      show readR _ _ _ _ = none
      unfold readR normalise
      have : (decide (-(nf : Int) ≤ i) && decide (i < (nf : Int))) = false := by
        simp only [Bool.and_eq_false_iff, decide_eq_false_iff_not]
        by_cases h1 : -(nf : Int) ≤ i
        · right; exact fun h2 => hr ⟨h1, h2⟩
        · left; exact h1
      simp [this]
  | list l =>
    simp only [selected]
    by_cases hr : l ≠ [] ∧ ∀ i ∈ l, -(nf : Int) ≤ i ∧ i < (nf : Int)
    · rw [if_pos hr]
      refine ⟨spatial h ++ [(l.length : Int)], ?_⟩
      rw [readR_list pre line payload post h n nf hl hp hcells hn hlen l hr.1 hr.2, List.map_map]
      rfl
    · rw [if_neg hr]
      show readR _ _ _ _ = none
      unfold readR normalise
      have : (!l.isEmpty && l.all fun i => decide (-(nf : Int) ≤ i) && decide (i < (nf : Int))) = false := by
        by_cases hne : l = []
        · simp [hne]
        · have : ¬ ∀ i ∈ l, -(nf : Int) ≤ i ∧ i < (nf : Int) := fun hall => hr ⟨hne, hall⟩
          simp only [Bool.and_eq_false_iff]
          right
          simpa [List.all_eq_true] using this
      simp [this]
  | slice a b c =>
    simp only [selected]
    by_cases hr : ∀ st, c = some st → 0 < st
    · rw [if_pos hr]
      obtain ⟨s, e, st, hsi, hread⟩ := readR_slice pre line payload post h n nf hl hp hcells hn hnf hlen a b c hr
      rw [hsi]
      simp only [Option.map_some]
      exact ⟨_, by rw [hread, List.map_map]; rfl⟩
    · rw [if_neg hr]
      show readR _ _ _ _ = none
      unfold readR normalise
      cases c with
      | none => exact absurd (fun st h => by cases h) hr
      | some st =>
        have : st ≤ 0 := by
          apply Int.not_lt.mp
          intro hpos
          exact hr (fun st' h' => by cases h'; exact hpos)
        simp [this]

end Located
end ReaderR
