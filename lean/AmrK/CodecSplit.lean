import AmrK.CodecInt
/-! Probe: `split()` / `split(sep)` undo joining, on bytes. -/
namespace Py

/-! ### whitespace split -/

theorem splitWs_go_token (t : Bytes) (ht : NoSpace t) (cur : Bytes) (acc : List Bytes) (rest : Bytes) :
    splitWs.go cur acc (t ++ rest) = splitWs.go (t.reverse ++ cur) acc rest := by
  induction t generalizing cur with
  | nil => rfl
  | cons b t ih =>
    have hb : isSpace b = false := ht b List.mem_cons_self
    have hstep : splitWs.go cur acc (b :: (t ++ rest)) = splitWs.go (b :: cur) acc (t ++ rest) := by
      conv => lhs; unfold splitWs.go
      simp [hb]
    rw [List.cons_append, hstep, ih (fun x hx => ht x (List.mem_cons_of_mem _ hx))]
    simp

theorem splitWs_go_space (s : UInt8) (hs : isSpace s = true) (cur : Bytes) (acc : List Bytes) (rest : Bytes) :
    splitWs.go cur acc (s :: rest)
      = splitWs.go [] (if cur.isEmpty then acc else cur.reverse :: acc) rest := by
  conv => lhs; unfold splitWs.go
  simp [hs]

theorem splitWs_go_sepJoin (l : List (Bytes × UInt8)) (acc : List Bytes)
    (h : ∀ p ∈ l, p.1 ≠ [] ∧ NoSpace p.1 ∧ isSpace p.2 = true) :
    splitWs.go [] acc (sepJoin l) = acc.reverse ++ l.map (·.1) := by
  induction l generalizing acc with
  | nil =>
    unfold sepJoin splitWs.go
    simp
  | cons p l ih =>
    obtain ⟨t, s⟩ := p
    obtain ⟨h1, h2, h3⟩ := h (t, s) List.mem_cons_self
    unfold sepJoin
    rw [splitWs_go_token t h2, splitWs_go_space s h3]
    have hne : (t.reverse ++ []).isEmpty = false := by
      cases t with
      | nil => exact absurd rfl h1
      | cons b t => simp
    simp only [List.append_nil, List.reverse_reverse]
    rw [ih _ (fun q hq => h q (List.mem_cons_of_mem _ hq))]
    have hne' : t ≠ [] := h1
    simp [hne']

theorem splitWs_sepJoin (l : List (Bytes × UInt8))
    (h : ∀ p ∈ l, p.1 ≠ [] ∧ NoSpace p.1 ∧ isSpace p.2 = true) :
    splitWs (sepJoin l) = l.map (·.1) := by
  unfold splitWs
  rw [splitWs_go_sepJoin l [] h]; rfl

/-! ### split on a separator byte -/

def NoByte (c : UInt8) (s : Bytes) : Prop := ∀ b ∈ s, b ≠ c

theorem splitOn_go_piece (sep : UInt8) (p : Bytes) (hp : NoByte sep p) (cur : Bytes) (acc : List Bytes) (rest : Bytes) :
    splitOn.go sep cur acc (p ++ rest) = splitOn.go sep (p.reverse ++ cur) acc rest := by
  induction p generalizing cur with
  | nil => rfl
  | cons b p ih =>
    have hb : b ≠ sep := hp b List.mem_cons_self
    have hstep : splitOn.go sep cur acc (b :: (p ++ rest)) = splitOn.go sep (b :: cur) acc (p ++ rest) := by
      conv => lhs; unfold splitOn.go
      simp [hb]
    rw [List.cons_append, hstep, ih (fun x hx => hp x (List.mem_cons_of_mem _ hx))]
    simp

theorem splitOn_go_sep (sep : UInt8) (cur : Bytes) (acc : List Bytes) (rest : Bytes) :
    splitOn.go sep cur acc (sep :: rest) = splitOn.go sep [] (cur.reverse :: acc) rest := by
  conv => lhs; unfold splitOn.go
  simp

theorem splitOn_go_end (sep : UInt8) (cur : Bytes) (acc : List Bytes) :
    splitOn.go sep cur acc [] = (cur.reverse :: acc).reverse := by
  unfold splitOn.go; rfl

theorem splitOn_go_joinSep (sep : UInt8) (ps : List Bytes) (hne : ps ≠ []) (hps : ∀ p ∈ ps, NoByte sep p)
    (acc : List Bytes) : splitOn.go sep [] acc (joinSep sep ps) = acc.reverse ++ ps := by
  induction ps generalizing acc with
  | nil => exact absurd rfl hne
  | cons p ps ih =>
    cases ps with
    | nil =>
      unfold joinSep
      have := splitOn_go_piece sep p (hps p List.mem_cons_self) [] acc []
      rw [List.append_nil] at this
      rw [this, splitOn_go_end]
      simp
    | cons q rest =>
      unfold joinSep
      rw [splitOn_go_piece sep p (hps p List.mem_cons_self), splitOn_go_sep]
      simp only [List.append_nil, List.reverse_reverse]
      rw [ih (by simp) (fun x hx => hps x (List.mem_cons_of_mem _ hx))]
      simp

theorem splitOn_joinSep (sep : UInt8) (ps : List Bytes) (hne : ps ≠ []) (hps : ∀ p ∈ ps, NoByte sep p) :
    splitOn sep (joinSep sep ps) = ps := by
  unfold splitOn
  rw [splitOn_go_joinSep sep ps hne hps []]; rfl

/-- `s.split('(')[-1]` when the text after the last '(' contains none -/
theorem splitOn_go_getLast (sep : UInt8) (y : Bytes) (hy : NoByte sep y) (x : Bytes) (cur : Bytes) (acc : List Bytes) :
    (splitOn.go sep cur acc (x ++ sep :: y)).getLast? = some y := by
  induction x generalizing cur acc with
  | nil =>
    rw [List.nil_append, splitOn_go_sep]
    have := splitOn_go_piece sep y hy [] (cur.reverse :: acc) []
    rw [List.append_nil] at this
    rw [this, splitOn_go_end]
    simp
  | cons b x ih =>
    rw [List.cons_append]
    by_cases hb : b = sep
    · subst hb
      rw [splitOn_go_sep]; exact ih _ _
    · have hstep : splitOn.go sep cur acc (b :: (x ++ sep :: y)) = splitOn.go sep (b :: cur) acc (x ++ sep :: y) := by
        conv => lhs; unfold splitOn.go
        simp [hb]
      rw [hstep]; exact ih _ _

theorem splitOn_getLast (sep : UInt8) (x y : Bytes) (hy : NoByte sep y) :
    (splitOn sep (x ++ sep :: y)).getLast? = some y := by
  unfold splitOn
  exact splitOn_go_getLast sep y hy x [] []

/-! ### removing a byte -/

theorem remove_append (c : UInt8) (a b : Bytes) : remove c (a ++ b) = remove c a ++ remove c b := by
  unfold remove; rw [List.filter_append]

theorem remove_noByte (c : UInt8) (s : Bytes) (h : NoByte c s) : remove c s = s := by
  unfold remove
  apply List.filter_eq_self.mpr
  intro b hb
  simpa using h b hb

theorem remove_single (c : UInt8) : remove c [c] = [] := by
  unfold remove; simp

end Py
