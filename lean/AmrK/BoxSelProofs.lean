import AmrK.BoxSel
import AmrK.ReaderRProofs
import AmrK.SliceLemmas
/-! Box selection: every selector form denotes positions inside the level, lists in the order requested, masks in
    increasing order; and the whole `pck[fields][level][boxes]` read returns, box by box in that order, exactly the
    component blocks the field selector denotes (composition with `readR_refuse_or_exact`). -/
namespace BoxSel
open Reader ReaderR Py Taste

theorem wrap_lt (size : Nat) (i : Int) (p : Nat) (h : wrap size i = some p) : p < size := by
  unfold wrap at h
  split at h
  · rename_i hr
    cases h
    have hs : (0 : Int) < size := by omega
    have := Int.emod_lt_of_pos i hs
    have := Int.emod_nonneg i (Int.ne_of_gt hs)
    omega
  · cases h

theorem wrap_spec (size : Nat) (i : Int) (p : Nat) (h : wrap size i = some p) :
    (0 ≤ i → (p : Int) = i) ∧ (i < 0 → (p : Int) = i + size) := by
  unfold wrap at h
  split at h
  · rename_i hr
    cases h
    have hs : (0 : Int) < size := by omega
    constructor
    · intro h0
      rw [Int.toNat_of_nonneg (Int.emod_nonneg i (Int.ne_of_gt hs))]
      exact Int.emod_eq_of_lt h0 hr.2
    · intro h0
      rw [Int.toNat_of_nonneg (Int.emod_nonneg i (Int.ne_of_gt hs))]
      have : (i + size) % (size : Int) = i % size := Int.add_emod_right i size
      rw [← this]
      exact Int.emod_eq_of_lt (by omega) (by omega)
  · cases h

theorem mapM_wrap_lt (size : Nat) (l : List Int) (ps : List Nat) (h : l.mapM (wrap size) = some ps) :
    ∀ p ∈ ps, p < size := by
  induction l generalizing ps with
  | nil => simp at h; subst h; intro p hp; cases hp
  | cons i r ih =>
    rw [List.mapM_cons] at h
    cases hw : wrap size i with
    | none => simp [hw] at h
    | some q =>
      cases hr : r.mapM (wrap size) with
      | none => simp [hw, hr] at h
      | some qs =>
        simp [hw, hr] at h
        subst h
        intro p hp
        rcases List.mem_cons.mp hp with e | e
        · subst e; exact wrap_lt size i _ hw
        · exact ih qs hr p e

/-- an index list is delivered position by position, in the order requested -/
theorem mapM_wrap_order (size : Nat) (l : List Int) (ps : List Nat) (h : l.mapM (wrap size) = some ps) :
    ps.length = l.length ∧ ∀ (k : Nat) (i : Int) (p : Nat), l[k]? = some i → ps[k]? = some p → wrap size i = some p := by
  induction l generalizing ps with
  | nil => simp at h; subst h; simp
  | cons i r ih =>
    rw [List.mapM_cons] at h
    cases hw : wrap size i with
    | none => simp [hw] at h
    | some q =>
      cases hr : r.mapM (wrap size) with
      | none => simp [hw, hr] at h
      | some qs =>
        simp [hw, hr] at h
        subst h
        obtain ⟨h1, h2⟩ := ih qs hr
        refine ⟨by simp [h1], ?_⟩
        intro k i' p hi' hp
        cases k with
        | zero => simp at hi' hp; subst hi' hp; exact hw
        | succ k => exact h2 k i' p (by simpa using hi') (by simpa using hp)

theorem trues_spec (m : List Bool) (k : Nat) :
    (∀ p ∈ trues m k, k ≤ p ∧ p < k + m.length ∧ m[p - k]? = some true) ∧
    (∀ j, m[j]? = some true → k + j ∈ trues m k) ∧ (trues m k).Pairwise (· < ·) := by
  induction m generalizing k with
  | nil => simp [trues]
  | cons b r ih =>
    obtain ⟨h1, h2, h3⟩ := ih (k + 1)
    cases b with
    | true =>
      simp only [trues]
      refine ⟨?_, ?_, ?_⟩
      · intro p hp
        rcases List.mem_cons.mp hp with e | e
        · subst e; simp
        · obtain ⟨a, b, c⟩ := h1 p e
          refine ⟨by omega, by simp; omega, ?_⟩
          have : p - k = (p - (k + 1)) + 1 := by omega
          rw [this]; simpa using c
      · intro j hj
        cases j with
        | zero => simp
        | succ j =>
          have := h2 j (by simpa using hj)
          have e : k + (j + 1) = k + 1 + j := by omega
          rw [e]; exact List.mem_cons_of_mem _ this
      · refine List.pairwise_cons.mpr ⟨?_, h3⟩
        intro p hp
        have := (h1 p hp).1
        omega
    | false =>
      simp only [trues]
      refine ⟨?_, ?_, h3⟩
      · intro p hp
        obtain ⟨a, b, c⟩ := h1 p hp
        refine ⟨by omega, by simp; omega, ?_⟩
        have : p - k = (p - (k + 1)) + 1 := by omega
        rw [this]; simpa using c
      · intro j hj
        cases j with
        | zero => simp at hj
        | succ j =>
          have := h2 j (by simpa using hj)
          have e : k + (j + 1) = k + 1 + j := by omega
          rw [e]; exact this

theorem sliceIndices_neg (a b : Option Int) (st : Int) (n : Int) (hn : 0 ≤ n) (hst : st < 0) :
    ∃ s e, sliceIndices a b (some st) n = some (s, e, st) ∧ -1 ≤ s ∧ s ≤ n - 1 ∧ -1 ≤ e ∧ e ≤ n - 1 := by
  unfold sliceIndices
  have h0 : ¬ ((some st).getD 1 = 0) := by simp; omega
  simp only [h0, if_false]
  have hneg : (some st).getD 1 < 0 := by simpa using hst
  simp only [hneg, if_true]
  refine ⟨_, _, rfl, ?_, ?_, ?_, ?_⟩
  all_goals
    (first
      | (cases a <;> simp <;> (try split) <;> omega)
      | (cases b <;> simp <;> (try split) <;> omega))

/-- every element of `range(*slice.indices(n))` is a position `0 ≤ x < n` -/
theorem slice_elems (a b c : Option Int) (n : Nat) (s e st : Int) (h : sliceIndices a b c (n : Int) = some (s, e, st)) :
    ∀ x ∈ pyRange s e st, 0 ≤ x ∧ x < (n : Int) := by
  have hboth : st = c.getD 1 ∧ st ≠ 0 := by
    by_cases h0 : c.getD 1 = 0
    · simp [sliceIndices, h0] at h
    · have h' := h
      simp only [sliceIndices, h0, if_false, Option.some.injEq, Prod.mk.injEq] at h'
      exact ⟨h'.2.2.symm, by rw [← h'.2.2]; exact h0⟩
  have hst0 := hboth.2
  have hstc := hboth.1
  rcases Int.lt_or_gt_of_ne hst0 with hneg | hpos
  · -- backward
    have hc : c = some st := by
      cases c with
      | none => simp at hstc; omega
      | some v => simp at hstc; rw [hstc]
    subst hc
    obtain ⟨s', e', h', b1, b2, b3, b4⟩ := sliceIndices_neg a b st n (by omega) hneg
    rw [h] at h'
    simp at h'
    obtain ⟨rfl, rfl⟩ := h'
    intro x hx
    unfold pyRange at hx
    have h1 : ¬ st > 0 := by omega
    simp only [h1, if_false, hneg, if_true] at hx
    obtain ⟨k, hk, rfl⟩ := List.mem_map.mp hx
    have hk' := List.mem_range.mp hk
    have := range_elem_lt (s - e) (-st) (by omega) k hk'
    have hkm : (k : Int) * st = -((k : Int) * (-st)) := by rw [Int.mul_neg, Int.neg_neg]
    have hk0 : 0 ≤ (k : Int) * (-st) := Int.mul_nonneg (by omega) (by omega)
    omega
  · have hc : ∀ v, c = some v → 0 < v := by
      intro v hv; subst hv; simp at hstc; omega
    obtain ⟨s', e', st', h', _, _, b1, b2, b3, b4⟩ := sliceIndices_pos a b c n (by omega) hc
    rw [h] at h'
    simp at h'
    obtain ⟨rfl, rfl, rfl⟩ := h'
    intro x hx
    rw [pyRange_pos s e st hpos] at hx
    obtain ⟨k, hk, rfl⟩ := List.mem_map.mp hx
    have hk' := List.mem_range.mp hk
    have hk0 : 0 ≤ (k : Int) * st := Int.mul_nonneg (by omega) (by omega)
    by_cases hse : s ≤ e
    · have hl : (e - s + st - 1) / st = ((e - s) + st - 1) / st := rfl
      have := range_elem_lt (e - s) st hpos k (by rw [← hl]; exact hk')
      omega
    · rw [range_len_eq s e st hpos] at hk'
      have hmax : max (e - s) 0 = 0 := by omega
      rw [hmax] at hk'
      have := range_elem_lt 0 st hpos k hk'
      omega

/-- **every selector form denotes boxes of the level**: whatever `positions` returns lies below `size` -/
theorem positions_lt (size : Nat) (sel : Sel) (ps : List Nat) (h : positions size sel = some ps) : ∀ p ∈ ps, p < size := by
  cases sel with
  | idx i =>
    simp only [positions] at h
    cases hw : wrap size i with
    | none => simp [hw] at h
    | some q =>
      simp [hw] at h; subst h
      intro p hp; simp at hp; subst hp; exact wrap_lt size i _ hw
  | slice a b c =>
    simp only [positions] at h
    cases hs : sliceIndices a b c (size : Int) with
    | none => simp [hs] at h
    | some t =>
      obtain ⟨s, e, st⟩ := t
      simp [hs] at h; subst h
      intro p hp
      obtain ⟨x, hx, rfl⟩ := List.mem_map.mp hp
      have := slice_elems a b c size s e st hs x hx
      omega
  | list l => exact mapM_wrap_lt size l ps h
  | mask m =>
    simp only [positions] at h
    split at h
    · cases h; intro p hp; cases hp
    · split at h
      · rename_i hl
        cases h
        intro p hp
        have := ((trues_spec m 0).1 p hp).2.1
        omega
      · cases h

/-- a boolean mask with one entry per box denotes exactly the boxes marked `true`, in increasing order -/
theorem positions_mask (m : List Bool) (hne : m ≠ []) :
    ∃ ps, positions m.length (.mask m) = some ps ∧ (∀ p, p ∈ ps ↔ m[p]? = some true) ∧ ps.Pairwise (· < ·) := by
  refine ⟨trues m 0, ?_, ?_, (trues_spec m 0).2.2⟩
  · simp only [positions]
    have : m.isEmpty = false := by cases m <;> simp_all
    simp [this]
  · intro p
    constructor
    · intro hp; simpa using ((trues_spec m 0).1 p hp).2.2
    · intro hp; simpa using (trues_spec m 0).2.1 p hp

/-! ### the whole read -/

/-- the FAB of a box: header line `line` at the recorded offset of the recorded file, announcing `n > 0` cells and `nf`
    components, followed by the payload -/
structure BoxAt (files : List Bytes) (e : Nat × Nat) (nf : Nat) (h : Hdr) (n : Nat) (payload : Bytes) : Prop where
  ex : ∃ pre line post, files[e.1]? = some (pre ++ line ++ payload ++ post) ∧ pre.length = e.2 ∧ IsLine line ∧
        parseFabHeader line = some h
  cells : ncells h = (n : Int)
  pos : 0 < n
  nfh : h.nf = (nf : Int)
  len : payload.length = n * nf * 8

theorem readOne (files : List Bytes) (entries : List (Nat × Nat)) (nf : Int) (fa : FArg) (p : Nat) (e : Nat × Nat) (raw : Bytes)
    (he : entries[p]? = some e) (hf : files[e.1]? = some raw) :
    readAt files entries nf fa p = readR raw e.2 nf fa := by
  simp only [readAt, he, hf, Option.bind_eq_bind, Option.bind_some]

theorem mapM_some {α β} (f : α → Option β) (g : α → β) (l : List α) (h : ∀ x ∈ l, f x = some (g x)) :
    l.mapM f = some (l.map g) := by
  induction l with
  | nil => rfl
  | cons x r ih =>
    rw [List.mapM_cons, h x List.mem_cons_self, ih (fun y hy => h y (List.mem_cons_of_mem _ hy))]
    rfl

theorem mapM_none {α β} (f : α → Option β) (l : List α) (x : α) (hx : x ∈ l) (h : f x = none) : l.mapM f = none := by
  induction l with
  | nil => cases hx
  | cons y r ih =>
    rw [List.mapM_cons]
    rcases List.mem_cons.mp hx with e | e
    · subst e; simp [h]
    · cases hy : f y with
      | none => simp
      | some v => simp [ih e]

/-- **C01, whole selection.**  On a level whose every recorded entry points at the FAB of its box (`BoxAt`), for every field
    selector and every box selector: a box selector without meaning is refused; otherwise, if the field selector has no
    meaning the read is refused as soon as a box is selected; otherwise the result lists, for each selected box **in the
    order requested**, exactly the component blocks the field selector denotes of **that box's** payload. -/
theorem readSel_exact (files : List Bytes) (entries : List (Nat × Nat)) (nf : Nat) (fa : FArg) (sel : Sel)
    (hdr : Nat → Hdr) (cells : Nat → Nat) (payload : Nat → Bytes)
    (hbox : ∀ p e, entries[p]? = some e → BoxAt files e nf (hdr p) (cells p) (payload p)) :
    match positions entries.length sel with
    | none => readSel files entries (nf : Int) fa sel = none
    | some ps =>
      match selected nf fa with
      | none => ps = [] ∨ readSel files entries (nf : Int) fa sel = none
      | some fs => ∃ shape : Nat → List Int, readSel files entries (nf : Int) fa sel
          = some (ps.map fun p => ⟨shape p, fs.map (block (payload p) (cells p))⟩) := by
  cases hps : positions entries.length sel with
  | none => simp [readSel, hps]
  | some ps =>
    have hlt := positions_lt entries.length sel ps hps
    -- the read of one selected box
    have hone : ∀ p ∈ ps, ∃ e pre line post, entries[p]? = some e ∧
        files[e.1]? = some (pre ++ line ++ payload p ++ post) ∧ pre.length = e.2 ∧
        (match selected nf fa with
         | none => readR (pre ++ line ++ payload p ++ post) pre.length (nf : Int) fa = none
         | some fs => ∃ shape, readR (pre ++ line ++ payload p ++ post) pre.length (nf : Int) fa
              = some ⟨shape, fs.map (block (payload p) (cells p))⟩) := by
      intro p hp
      have hpl := hlt p hp
      have he : entries[p]? = some entries[p] := List.getElem?_eq_getElem hpl
      have B := hbox p entries[p] he
      obtain ⟨pre, line, post, hf, hpre, hl, hparse⟩ := B.ex
      exact ⟨entries[p], pre, line, post, he, hf, hpre,
        readR_refuse_or_exact pre line (payload p) post (hdr p) (cells p) nf hl hparse B.cells B.pos B.nfh B.len fa⟩
    cases hfs : selected nf fa with
    | none =>
      simp only
      cases ps with
      | nil => exact Or.inl rfl
      | cons p r =>
        right
        obtain ⟨e, pre, line, post, he, hf, hpre, hr⟩ := hone p List.mem_cons_self
        rw [hfs] at hr
        simp only [readSel, hps, Option.bind_eq_bind, Option.bind_some]
        apply mapM_none _ _ p List.mem_cons_self
        rw [readOne files entries (nf : Int) fa p e _ he hf, ← hpre]
        exact hr
    | some fs =>
      simp only
      have hsh : ∀ p, ∃ shape : List Int, p ∈ ps →
          readAt files entries (nf : Int) fa p
            = some (⟨shape, fs.map (block (payload p) (cells p))⟩ : Out) := by
        intro p
        by_cases hp : p ∈ ps
        · obtain ⟨e, pre, line, post, he, hf, hpre, hr⟩ := hone p hp
          rw [hfs] at hr
          obtain ⟨shape, hr⟩ := hr
          refine ⟨shape, fun _ => ?_⟩
          rw [readOne files entries (nf : Int) fa p e _ he hf, ← hpre]
          exact hr
        · exact ⟨[], fun h => absurd h hp⟩
      refine ⟨fun p => (hsh p).choose, ?_⟩
      simp only [readSel, hps, Option.bind_eq_bind, Option.bind_some]
      exact mapM_some _ _ ps (fun p hp => (hsh p).choose_spec hp)

end BoxSel
