/-! menu's classification of the header's fields (`Menu.variables_finder`, `species_finder`, the units column of
    `find_min_max`): a small backtracking matcher for the regular-expression subset the database uses (`^`, `$`, literal
    and escaped characters, `.`, `\w`, postfix `+`; `re.search` semantics), the first-match loop over the database in
    dictionary order with its `else` branch (an unknown field is registered under its own name, *over* a database entry of
    that name), the case-insensitive stable sort.  The database itself is a parameter (sent by the harness from the module
    under test on every run).  ASCII names only (`\w` is `[A-Za-z0-9_]`).  Core-only (run by the driver). -/
namespace MenuClass

inductive Atom where
  | chr (c : Char)
  | any
  | word
deriving Repr, DecidableEq

inductive Tok where
  | item (a : Atom) (plus : Bool)
  | bol
  | eol
deriving Repr, DecidableEq

inductive Raw where
  | atom (a : Atom)
  | bol
  | eol
  | plus
deriving Repr, DecidableEq

/-- characters to raw tokens; `none` = outside the supported subset -/
def lex : List Char → Option (List Raw)
  | [] => some []
  | '\\' :: c :: r =>
    if c = 'w' then (lex r).map (Raw.atom .word :: ·)
    else if c.isAlphanum then none            -- other classes / back references
    else (lex r).map (Raw.atom (.chr c) :: ·)
  | c :: r =>
    if c = '^' then (lex r).map (Raw.bol :: ·)
    else if c = '$' then (lex r).map (Raw.eol :: ·)
    else if c = '+' then (lex r).map (Raw.plus :: ·)
    else if c = '.' then (lex r).map (Raw.atom .any :: ·)
    else if c = '*' ∨ c = '?' ∨ c = '[' ∨ c = ']' ∨ c = '(' ∨ c = ')' ∨ c = '{' ∨ c = '}' ∨ c = '|' ∨ c = '\\' then none
    else (lex r).map (Raw.atom (.chr c) :: ·)

/-- postfix `+` attached to the atom before it -/
def attach : List Raw → Option (List Tok)
  | [] => some []
  | .atom a :: .plus :: r => (attach r).map (Tok.item a true :: ·)
  | .atom a :: r => (attach r).map (Tok.item a false :: ·)
  | .bol :: r => (attach r).map (Tok.bol :: ·)
  | .eol :: r => (attach r).map (Tok.eol :: ·)
  | .plus :: _ => none

/-- pattern text to tokens; `none` = outside the supported subset -/
def parsePat (p : List Char) : Option (List Tok) := (lex p).bind attach

def isWord (c : Char) : Bool := c.isAlphanum || c = '_'

def matchAtom : Atom → Char → Bool
  | .chr d, c => c = d
  | .any, c => c ≠ '\n'
  | .word, c => isWord c

/-- does the token list match a prefix of `s` (`st`: `s` is the whole subject, i.e. we are at its start) -/
def matchHere : List Tok → List Char → Bool → Bool
  | [], _, _ => true
  | .bol :: r, s, st => st && matchHere r s st
  | .eol :: r, s, st => (s = [] || s = ['\n']) && matchHere r s st
  | .item _ _ :: _, [], _ => false
  | .item a false :: r, c :: s, _ => matchAtom a c && matchHere r s false
  | .item a true :: r, c :: s, _ => matchAtom a c && (matchHere r s false || matchHere (.item a true :: r) s false)
termination_by t s _ => s.length + t.length

/-- `re.search`: a match starting anywhere -/
def searchFrom (t : List Tok) : List Char → Bool → Bool
  | [], st => matchHere t [] st
  | c :: s, st => matchHere t (c :: s) st || searchFrom t s false

def search (pat : String) (s : String) : Option Bool :=
  (parsePat pat.toList).map fun t => searchFrom t s.toList true

/-- a database entry: key, pattern, units -/
abbrev Entry := String × String × String

/-- first key (dictionary order) whose pattern is found in the field; `none` = an unsupported pattern was met first -/
def classify : List Entry → String → Option (Option Entry)
  | [], _ => some none
  | e :: r, f =>
    match search e.2.1 f with
    | none => none
    | some true => some (some e)
    | some false => classify r f

/-- `re.escape` for the characters a field name can hold -/
def escape (s : String) : String :=
  String.ofList (s.toList.flatMap fun c => if isWord c then [c] else ['\\', c])

/-- `field_info[field] = (...)`: replaces the entry of that key in place, or appends -/
def setEntry (t : List Entry) (e : Entry) : List Entry :=
  if t.any (·.1 == e.1) then t.map fun x => if x.1 == e.1 then e else x else t ++ [e]

/-- `variables_finder` before the sort: (listed names, database afterwards) -/
def finder : List Entry → List String → List String → Option (List String × List Entry)
  | t, acc, [] => some (acc, t)
  | t, acc, f :: fs =>
    match classify t f with
    | none => none
    | some (some e) => finder t (if acc.contains e.1 then acc else acc ++ [e.1]) fs
    | some none =>
      if acc.contains f then finder t acc fs
      else finder (setEntry t (f, "^" ++ escape f ++ "$", "[...]")) (acc ++ [f]) fs

def insertBy (key : String → String) (x : String) : List String → List String
  | [] => [x]
  | y :: ys => if key x < key y then x :: y :: ys else y :: insertBy key x ys

/-- stable sort by key (`list.sort(key=...)`) -/
def sortBy (key : String → String) (l : List String) : List String := l.foldr (fun x acc => insertBy key x acc) []

/-- the names menu lists, in the order shown, and the database as later steps see it -/
def variables (t : List Entry) (fields : List String) : Option (List String × List Entry) :=
  (finder t [] fields).map fun (l, t') => (sortBy String.toLower l, t')

/-- `species_finder`: the fields the species pattern finds, stripped of `Y(` and `)`, sorted -/
def species (speciesPat : String) (fields : List String) : Option (List String) := do
  let ms ← fields.mapM fun f => (search speciesPat f).map fun b => (f, b)
  let names := (ms.filter (·.2)).map fun p =>
    let s := p.1
    let s := if s.startsWith "Y(" then (s.drop 2).toString else s
    if s.endsWith ")" then (s.dropEnd 1).toString else s
  pure (sortBy id names)

end MenuClass
