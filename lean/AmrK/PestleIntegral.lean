import AmrK.PestleMask
/-! C09: lifting `mask_correct` to the whole integral. -/
namespace Pestle

/-- every coarse box of every masked level is aligned to the resolution `r` (the hypothesis of
    `mask_correct`, met by construction for the repaired `r = gcd of all faces`) -/
def AlignedAll (r : Nat) : List Level → Prop
  | lv :: fine :: rest =>
    (∀ b ∈ lv.boxes, ∃ l0 l1 l2 h0 h1 h2 g0 g1 g2, Aligned3 r fine b l0 l1 l2 h0 h1 h2 g0 g1 g2) ∧ AlignedAll r (fine :: rest)
  | _ => True

theorem levelMasked_eq (r : Nat) (fine lv : Level) (bs : List Box)
    (h : ∀ b ∈ bs, ∃ l0 l1 l2 h0 h1 h2 g0 g1 g2, Aligned3 r fine b l0 l1 l2 h0 h1 h2 g0 g1 g2) :
    levelMasked fine r lv bs = some (levelSpec fine lv bs) := by
  induction bs with
  | nil => rfl
  | cons b bs ih =>
    obtain ⟨l0, l1, l2, h0, h1, h2, g0, g1, g2, A⟩ := h b (by simp)
    simp only [levelMasked, boxMasked, mask_correct r fine b l0 l1 l2 h0 h1 h2 g0 g1 g2 A, Option.map_some,
      ih (fun b' hb' => h b' (by simp [hb'])), levelSpec]
    rfl

/-- **The integral is the sum over the cells not covered by a finer selected level of value × cell
    volume — every point of the domain is counted exactly once** — for any number of levels, any mix
    of box sizes aligned to `r`. -/
theorem integralGo_eq_spec (r : Nat) : ∀ (lvls : List Level), AlignedAll r lvls → integralGo r lvls = some (integralSpec lvls)
  | [], _ => rfl
  | [_], _ => rfl
  | lv :: fine :: rest, h => by
    obtain ⟨h1, h2⟩ := h
    simp only [integralGo, levelMasked_eq r fine lv lv.boxes h1, integralGo_eq_spec r (fine :: rest) h2, integralSpec]
    rfl

end Pestle
