import AmrK.HeaderProofs
import AmrK.CellHCodec
import AmrK.HeaderRender
/-! `parse ∘ render = id` for the global `Header` of a plotfile: the text the writers of the toolbox
    print (tokens separated by single blanks, one item per line, final newline) is read back by the
    model of `PlotfileCooker.__init__` + `read_boxes` as exactly the metadata it was printed from,
    for every number of fields, dimensions, levels and boxes. -/

namespace Py

theorem splitWs_go_spaces (tr : Bytes) (htr : ∀ b ∈ tr, isSpace b = true) (acc : List Bytes) :
    splitWs.go [] acc tr = acc.reverse := by
  induction tr generalizing acc with
  | nil => unfold splitWs.go; simp
  | cons s tr ih =>
    rw [splitWs_go_space s (htr s (by simp))]
    simpa using ih (fun b hb => htr b (by simp [hb])) acc

theorem splitWs_go_cur_spaces (tr : Bytes) (htr : ∀ b ∈ tr, isSpace b = true) (cur : Bytes) (hc : cur ≠ [])
    (acc : List Bytes) : splitWs.go cur acc tr = acc.reverse ++ [cur.reverse] := by
  have hce : cur.isEmpty = false := by cases cur with
    | nil => exact absurd rfl hc
    | cons b t => rfl
  cases tr with
  | nil => unfold splitWs.go; simp [hce]
  | cons s tr =>
    rw [splitWs_go_space s (htr s (by simp)), splitWs_go_spaces tr (fun b hb => htr b (by simp [hb]))]
    simp [hce]

/-- tokens joined by single blanks, followed by any run of whitespace (the writers of some tools
    leave a trailing blank) -/
theorem splitWs_go_joinSep (toks : List Bytes) (h : ∀ t ∈ toks, t ≠ [] ∧ NoSpace t) (tr : Bytes)
    (htr : ∀ b ∈ tr, isSpace b = true) (acc : List Bytes) :
    splitWs.go [] acc (joinSep 32 toks ++ tr) = acc.reverse ++ toks := by
  induction toks generalizing acc with
  | nil => simpa [joinSep] using splitWs_go_spaces tr htr acc
  | cons t ts ih =>
    obtain ⟨hne, hns⟩ := h t (by simp)
    cases ts with
    | nil =>
      simp only [joinSep]
      rw [splitWs_go_token t hns [] acc tr, splitWs_go_cur_spaces tr htr _ (by simpa using hne)]
      simp
    | cons u us =>
      simp only [joinSep, List.append_assoc, List.cons_append]
      rw [splitWs_go_token t hns [] acc, splitWs_go_space 32 (by decide)]
      have : (t.reverse ++ []).isEmpty = false := by
        cases t with
        | nil => exact absurd rfl hne
        | cons b t => simp
      simp only [this, Bool.false_eq_true, if_false]
      rw [ih (fun q hq => h q (by simp [hq]))]
      simp

theorem splitWs_joinSep (toks : List Bytes) (h : ∀ t ∈ toks, t ≠ [] ∧ NoSpace t) (tr : Bytes)
    (htr : ∀ b ∈ tr, isSpace b = true) : splitWs (joinSep 32 toks ++ tr) = toks := by
  unfold splitWs
  rw [splitWs_go_joinSep toks h tr htr []]; rfl

theorem splitWs_joinSep' (toks : List Bytes) (h : ∀ t ∈ toks, t ≠ [] ∧ NoSpace t) :
    splitWs (joinSep 32 toks) = toks := by
  simpa using splitWs_joinSep toks h [] (by simp)

/-- accumulator of `split(sep)` -/
theorem splitOn_go_acc (sep : UInt8) (s cur : Bytes) (acc : List Bytes) :
    splitOn.go sep cur acc s = acc.reverse ++ splitOn.go sep cur [] s := by
  induction s generalizing cur acc with
  | nil => unfold splitOn.go; simp
  | cons b s ih =>
    unfold splitOn.go
    split
    · rw [ih [] (cur.reverse :: acc), ih [] [cur.reverse]]; simp
    · exact ih (b :: cur) acc

/-- `(p + sep + rest).split(sep) = [p] + rest.split(sep)` when `p` holds no separator -/
theorem splitOn_piece_cons (sep : UInt8) (p rest : Bytes) (hp : NoByte sep p) :
    splitOn sep (p ++ sep :: rest) = p :: splitOn sep rest := by
  unfold splitOn
  rw [splitOn_go_piece sep p hp [] [] (sep :: rest), splitOn_go_sep, splitOn_go_acc]
  simp

theorem noByte_joinSep (c sep : UInt8) (ps : List Bytes) (hc : sep ≠ c) (h : ∀ p ∈ ps, NoByte c p) :
    NoByte c (joinSep sep ps) := by
  induction ps with
  | nil => intro b hb; cases hb
  | cons p ps ih =>
    cases ps with
    | nil => simpa [joinSep] using h p (by simp)
    | cons q qs =>
      simp only [joinSep]
      intro b hb
      rcases List.mem_append.mp hb with h1 | h1
      · exact h p (by simp) b h1
      · rcases List.mem_cons.mp h1 with rfl | h2
        · exact hc
        · exact ih (fun r hr => h r (by simp [hr])) b h2

end Py

namespace Header
open Py Taste

/-- a float token as the writers print it: one non-empty word python's `float` accepts -/
def FTok (t : Bytes) : Prop := t ≠ [] ∧ NoSpace t ∧ pyFloatOk t = true

def LevelData.Good (nd : Nat) (l : LevelData) : Prop :=
  l.timeTok ≠ [] ∧ NoSpace l.timeTok ∧ NoByte NL l.stepLine ∧ NoByte 47 l.dir ∧ NoByte NL l.dir ∧ NoByte NL l.tail ∧
    ∀ b ∈ l.boxes, b.length = nd ∧ ∀ p ∈ b, FTok p.1 ∧ FTok p.2

structure HData.Good (H : HData) : Prop where
  version : NoByte NL H.version
  names : ∀ n ∈ H.names, NoByte NL n
  time : NoByte NL H.time ∧ pyFloatOk H.time = true
  geoLo : (∀ t ∈ H.geoLo, FTok t) ∧ H.ndims ≤ H.geoLo.length
  geoHi : (∀ t ∈ H.geoHi, FTok t) ∧ H.ndims ≤ H.geoHi.length
  grid : H.gridHi.length = H.levels.length ∧ ∀ hi ∈ H.gridHi, hi ≠ [] ∧ H.ndims ≤ hi.length ∧ ∀ x ∈ hi, 0 ≤ x + 1
  dx : H.dx.length = H.levels.length ∧ ∀ d ∈ H.dx, H.ndims ≤ d.length ∧ ∀ t ∈ d, FTok t
  coord : NoByte NL H.coordLine
  levels : H.levels ≠ [] ∧ ∀ l ∈ H.levels, l.Good H.ndims
  trail : ∀ t ∈ H.trails ++ H.dxTrails, ∀ b ∈ t, isSpace b = true ∧ b ≠ NL

/-- the field table of a list of names (repeated names renamed) -/
def tableOf (names : List Bytes) : List (Bytes × Nat) :=
  (List.range names.length).foldl (fun t i => addField t (names.getD i []) i) []

/-- what the reader exposes for a header, levels `0..n-1` selected -/
def HData.meta (H : HData) (n : Nat) : Meta :=
  { version := H.version, fields := tableOf H.names, ndims := H.ndims, time := H.time,
    maxLevel := ((H.levels.length - 1 : Nat) : Int), limitLevel := ((n - 1 : Nat) : Int),
    geoLo := H.geoLo, geoHi := H.geoHi, factors := H.factors, gridSizes := H.gridHi.map (·.map (· + 1)),
    steps := H.steps, dx := H.dx, npoints := (H.levels.take n).map (fun l => (l.boxes.length : Int)),
    boxes := (H.levels.take n).map (·.boxes), cellPaths := (H.levels.take n).map (·.dir) }

/-! ### single lines -/

theorem ftok_tok (t : Bytes) (h : FTok t) : t ≠ [] ∧ NoSpace t := ⟨h.1, h.2.1⟩

theorem floatTokens_tokLine (toks : List Bytes) (h : ∀ t ∈ toks, FTok t) : floatTokens (tokLine toks) = some toks := by
  unfold floatTokens tokLine
  rw [splitWs_joinSep' toks (fun t ht => ftok_tok t (h t ht))]
  have : toks.all pyFloatOk = true := List.all_eq_true.mpr (fun t ht => (h t ht).2.2)
  simp [this]

theorem floatTokens_tokLineT (tr : Bytes) (htr : ∀ b ∈ tr, isSpace b = true) (toks : List Bytes) (h : ∀ t ∈ toks, FTok t) :
    floatTokens (tokLineT tr toks) = some toks := by
  unfold floatTokens tokLineT
  rw [splitWs_joinSep toks (fun t ht => ftok_tok t (h t ht)) tr htr]
  have : toks.all pyFloatOk = true := List.all_eq_true.mpr (fun t ht => (h t ht).2.2)
  simp [this]

theorem mapM_pyInt_intBytes (l : List Int) : (l.map intBytes).mapM pyInt = some l := by
  induction l with
  | nil => rfl
  | cons x l ih => simp [List.mapM_cons, pyInt_intBytes, ih]

theorem noSpace_intBytes (i : Int) : NoSpace (intBytes i) := by
  intro b hb
  rcases intTok_intBytes i b hb with h | h
  · exact not_space_of_digit b h
  · subst h; decide

theorem intTokens_tokLine (l : List Int) : intTokens (tokLine (l.map intBytes)) = some l := by
  unfold intTokens tokLine
  rw [splitWs_joinSep' _ (by
    intro t ht
    obtain ⟨i, _, rfl⟩ := List.mem_map.mp ht
    exact ⟨intBytes_ne_nil i, noSpace_intBytes i⟩)]
  exact mapM_pyInt_intBytes l


theorem intTokens_tokLineT (tr : Bytes) (htr : ∀ b ∈ tr, isSpace b = true) (l : List Int) :
    intTokens (tokLineT tr (l.map intBytes)) = some l := by
  unfold intTokens tokLineT
  rw [splitWs_joinSep _ (by
    intro t ht
    obtain ⟨i, _, rfl⟩ := List.mem_map.mp ht
    exact ⟨intBytes_ne_nil i, noSpace_intBytes i⟩) tr htr]
  exact mapM_pyInt_intBytes l

theorem everyThird_cons3 (a b c : Bytes) (rest : List Bytes) :
    everyThirdFrom1 (a :: b :: c :: rest) = b :: everyThirdFrom1 rest := by
  unfold everyThirdFrom1
  have hl : (a :: b :: c :: rest).length = 3 + rest.length := by simp; omega
  rw [hl, List.range_add, List.filterMap_append, List.filterMap_map]
  have h3 : List.range 3 = [0, 1, 2] := by decide
  rw [h3]
  have hf : ((fun i => if i % 3 = 1 then (a :: b :: c :: rest)[i]? else none) ∘ fun x => 3 + x)
      = fun i => if i % 3 = 1 then rest[i]? else none := by
    funext i
    have : (3 + i) % 3 = i % 3 := by omega
    have h2 : (a :: b :: c :: rest)[3 + i]? = rest[i]? := by
      rw [Nat.add_comm]; rfl
    simp only [Function.comp, this, h2]
  rw [hf]
  simp

theorem everyThird_gridBlocks (gs : List (List Int)) :
    everyThirdFrom1 (gs.flatMap gridBlock) = gs.map fun hi => [40] ++ intsB hi ++ [41] := by
  induction gs with
  | nil => rfl
  | cons g gs ih =>
    simp only [List.flatMap_cons, gridBlock, List.map_cons]
    rw [show ([[40, 40] ++ zerosB g.length ++ [41], [40] ++ intsB g ++ [41], [40] ++ zerosB g.length ++ [41, 41]] ++ gs.flatMap gridBlock)
        = ([40, 40] ++ zerosB g.length ++ [41]) :: ([40] ++ intsB g ++ [41]) :: ([40] ++ zerosB g.length ++ [41, 41]) :: gs.flatMap gridBlock from rfl]
    rw [everyThird_cons3, ih]

theorem clean_gridTok1 (n : Nat) : Clean ([40, 40] ++ zerosB n ++ [41]) := by
  apply clean_append
  · apply clean_append
    · intro b hb; simp at hb; rcases hb with rfl | rfl <;> decide
    · exact clean_intsTok _ (intsTok_zerosB n)
  · intro b hb; simp at hb; subst hb; decide

theorem gridBlock_toks (gs : List (List Int)) : ∀ t ∈ gs.flatMap gridBlock, t ≠ [] ∧ NoSpace t := by
  intro t ht
  obtain ⟨g, _, hg⟩ := List.mem_flatMap.mp ht
  simp only [gridBlock, List.mem_cons, List.not_mem_nil, or_false] at hg
  rcases hg with rfl | rfl | rfl
  · exact ⟨by simp, noSpace_of_clean _ (clean_gridTok1 _)⟩
  · exact ⟨by simp, noSpace_of_clean _ (clean_tokStop g)⟩
  · exact ⟨by simp, noSpace_of_clean _ (clean_tokType _)⟩

theorem grid_mapM (gs : List (List Int)) (h : ∀ g ∈ gs, g ≠ []) :
    (gs.map fun hi => [40] ++ intsB hi ++ [41]).mapM (fun b => (splitOn 44 (remove 41 (remove 40 b))).mapM pyInt) = some gs := by
  induction gs with
  | nil => rfl
  | cons g gs ih =>
    have hg := intList_intsB g (h g (by simp))
    unfold Taste.intList at hg
    simp only [List.map_cons, List.mapM_cons, clean_parens_hi, hg, ih (fun x hx => h x (by simp [hx]))]
    rfl

theorem grid_line (tr : Bytes) (htr : ∀ b ∈ tr, isSpace b = true) (gs : List (List Int)) (h : ∀ g ∈ gs, g ≠ []) :
    (everyThirdFrom1 (splitWs (tokLineT tr (gs.flatMap gridBlock)))).mapM
      (fun b => (splitOn 44 (remove 41 (remove 40 b))).mapM pyInt) = some gs := by
  unfold tokLineT
  rw [splitWs_joinSep _ (gridBlock_toks gs) tr htr, everyThird_gridBlocks, grid_mapM gs h]

/-! ### segments of lines -/

/-- the lines `i, i+1, …` are the list `X` -/
def Seg (line : Nat → Bytes) (i : Nat) (X : List Bytes) : Prop := ∀ j (h : j < X.length), line (i + j) = X[j]

theorem seg_cons {line : Nat → Bytes} {i : Nat} {x : Bytes} {X : List Bytes} (h : Seg line i (x :: X)) :
    line i = x ∧ Seg line (i + 1) X := by
  refine ⟨by have := h 0 (by simp); simpa using this, ?_⟩
  intro j hj
  have := h (j + 1) (by simp; omega)
  rw [show i + (j + 1) = i + 1 + j by omega] at this
  simpa using this

theorem seg_append {line : Nat → Bytes} {i : Nat} {X Y : List Bytes} (h : Seg line i (X ++ Y)) :
    Seg line i X ∧ Seg line (i + X.length) Y := by
  constructor
  · intro j hj
    have := h j (by simp; omega)
    rw [this, List.getElem_append_left hj]
  · intro j hj
    have := h (X.length + j) (by simp; omega)
    rw [show i + (X.length + j) = i + X.length + j by omega] at this
    rw [this, List.getElem_append_right (by omega)]
    simp

theorem dxLines_length (trs : List Bytes) (k : Nat) (dx : List (List Bytes)) : (dxLines trs k dx).length = dx.length := by
  induction dx generalizing k with
  | nil => rfl
  | cons d dx ih => simp [dxLines, ih]

theorem parseDx_render (line : Nat → Bytes) (trs : List Bytes) (htr : ∀ k, ∀ b ∈ trailAt trs k, isSpace b = true)
    (dx : List (List Bytes)) (h : ∀ d ∈ dx, ∀ t ∈ d, FTok t) (i k : Nat)
    (hs : Seg line i (dxLines trs k dx)) : parseDx line i dx.length = some dx := by
  induction dx generalizing i k with
  | nil => rfl
  | cons d dx ih =>
    obtain ⟨h0, hr⟩ := seg_cons (by simpa [dxLines] using hs)
    simp only [List.length_cons, parseDx, h0, floatTokens_tokLineT _ (htr k) d (h d (by simp)),
      ih (fun e he => h e (by simp [he])) (i + 1) (k + 1) hr]
    rfl

theorem parseBoxDims_render (line : Nat → Bytes) (b : List (Bytes × Bytes)) (h : ∀ p ∈ b, FTok p.1 ∧ FTok p.2) (i : Nat)
    (hs : Seg line i (boxLines b)) : parseBoxDims line i b.length = some b := by
  induction b generalizing i with
  | nil => rfl
  | cons p b ih =>
    obtain ⟨lo, hi⟩ := p
    obtain ⟨h0, hr⟩ := seg_cons (by simpa [boxLines] using hs)
    obtain ⟨hlo, hhi⟩ := h (lo, hi) (by simp)
    have hsp : splitWs (tokLine [lo, hi]) = [lo, hi] := by
      unfold tokLine
      exact splitWs_joinSep' _ (by
        intro t ht; simp at ht; rcases ht with rfl | rfl
        · exact ftok_tok _ hlo
        · exact ftok_tok _ hhi)
    simp only [List.length_cons, parseBoxDims, h0, hsp, hlo.2.2, hhi.2.2, Bool.and_self, if_true,
      ih (fun q hq => h q (by simp [hq])) (i + 1) (by simpa [boxLines] using hr)]
    rfl

theorem parseLevelBoxes_render (line : Nat → Bytes) (nd : Nat) (bs : List (List (Bytes × Bytes)))
    (h : ∀ b ∈ bs, b.length = nd ∧ ∀ p ∈ b, FTok p.1 ∧ FTok p.2) (i : Nat)
    (hs : Seg line i (bs.flatMap boxLines)) : parseLevelBoxes line nd i bs.length = some bs := by
  induction bs generalizing i with
  | nil => rfl
  | cons b bs ih =>
    obtain ⟨hb, hp⟩ := h b (by simp)
    obtain ⟨h0, hr⟩ := seg_append (by simpa using hs)
    have hlen : (boxLines b).length = nd := by simp [boxLines, hb]
    rw [hlen] at hr
    have := parseBoxDims_render line b hp i h0
    rw [hb] at this
    simp only [List.length_cons, parseLevelBoxes, this, ih (fun c hc => h c (by simp [hc])) (i + nd) hr]
    rfl

theorem boxLines_flat_length (nd : Nat) (bs : List (List (Bytes × Bytes))) (h : ∀ b ∈ bs, b.length = nd) :
    (bs.flatMap boxLines).length = bs.length * nd := by
  induction bs with
  | nil => simp
  | cons b bs ih =>
    simp only [List.flatMap_cons, List.length_append, List.length_cons, ih (fun c hc => h c (by simp [hc]))]
    simp [boxLines, h b (by simp)]
    rw [Nat.add_mul]; omega

theorem parseLevels_render (line : Nat → Bytes) (nlines nd : Nat) (ls : List LevelData) (hg : ∀ l ∈ ls, l.Good nd)
    (cur lv : Nat) (hs : Seg line cur (levelsLines lv ls)) (hn : cur + (levelsLines lv ls).length < nlines) :
    parseLevels line nlines nd cur lv ls.length
      = some (ls.map fun l => ((l.boxes.length : Int), l.boxes, l.dir)) := by
  induction ls generalizing cur lv with
  | nil => rfl
  | cons l ls ih =>
    obtain ⟨ht1, ht2, _, hd47, _, _, hb⟩ := hg l (by simp)
    have hF := boxLines_flat_length nd l.boxes (fun b hb' => (hb b hb').1)
    simp only [levelsLines, levelLines] at hs hn
    obtain ⟨hlev, hrest⟩ := seg_append hs
    obtain ⟨hhead, hpath⟩ := seg_append hlev
    obtain ⟨hab, hboxes⟩ := seg_append hhead
    obtain ⟨ha, hab2⟩ := seg_cons hab
    have hp := (seg_cons hpath).1
    simp only [List.length_append, List.length_cons, List.length_nil, hF] at hp hrest hn hboxes
    have hsp : splitWs (tokLine [natBytes lv, natBytes l.boxes.length, l.timeTok])
        = [natBytes lv, natBytes l.boxes.length, l.timeTok] := by
      unfold tokLine
      exact splitWs_joinSep' _ (by
        intro t ht; simp at ht; rcases ht with rfl | rfl | rfl
        · exact ⟨natBytes_ne_nil _, noSpace_natBytes _⟩
        · exact ⟨natBytes_ne_nil _, noSpace_natBytes _⟩
        · exact ⟨ht1, ht2⟩)
    have hbx := parseLevelBoxes_render line nd l.boxes hb (cur + 2) (by simpa using hboxes)
    have hc : cur + 2 + l.boxes.length * nd + 1 < nlines := by omega
    have hraw : (splitOn 47 (l.dir ++ 47 :: l.tail ++ [10])).headD [] = l.dir := by
      rw [show l.dir ++ 47 :: l.tail ++ [10] = l.dir ++ 47 :: (l.tail ++ [10]) by simp,
        splitOn_piece_cons 47 l.dir _ hd47]
      rfl
    have hih := ih (fun m hm => hg m (by simp [hm])) (cur + 2 + l.boxes.length * nd + 1) (lv + 1)
      (by
        have : cur + (0 + 1 + 1 + l.boxes.length * nd + (0 + 1)) = cur + 2 + l.boxes.length * nd + 1 := by omega
        rw [this] at hrest; exact hrest)
      (by omega)
    have hp' : line (cur + 2 + l.boxes.length * nd) = l.dir ++ 47 :: l.tail := by
      have : cur + (0 + 1 + 1 + l.boxes.length * nd) = cur + 2 + l.boxes.length * nd := by omega
      rw [this] at hp; exact hp
    simp only [List.length_cons, parseLevels, ha, hsp, pyInt_natBytes, ne_eq, not_true_eq_false, if_false,
      Int.toNat_natCast, hbx, hc, if_true, hp', hraw, hih, List.map_cons]
    rfl

/-! ### no line of the rendered header holds a newline -/

theorem noNL_tokLine (toks : List Bytes) (h : ∀ t ∈ toks, NoSpace t) : NoByte NL (tokLine toks) :=
  noByte_joinSep NL 32 toks sp_ne_nl (fun t ht => noNL_of_noSpace t (h t ht))

theorem noNL_tokLineT (tr : Bytes) (htr : ∀ b ∈ tr, isSpace b = true ∧ b ≠ NL) (toks : List Bytes) (h : ∀ t ∈ toks, NoSpace t) :
    NoByte NL (tokLineT tr toks) :=
  noNL_append _ _ (noNL_tokLine toks h) (fun b hb => (htr b hb).2)

theorem trail_getD (l : List Bytes) (h : ∀ t ∈ l, ∀ b ∈ t, isSpace b = true ∧ b ≠ NL) (k : Nat) :
    ∀ b ∈ trailAt l k, isSpace b = true ∧ b ≠ NL := by
  intro b hb
  unfold trailAt at hb
  by_cases hk : k < l.length
  · have e : l.getD k [] = l[k] := by simp [List.getD, hk]
    rw [e] at hb
    exact h _ (List.getElem_mem hk) b hb
  · have e : l.getD k [] = [] := by simp [List.getD, Nat.le_of_not_lt hk]
    rw [e] at hb; cases hb

theorem noNL_dxLines (trs : List Bytes) (htr : ∀ t ∈ trs, ∀ b ∈ t, isSpace b = true ∧ b ≠ NL) (k : Nat) (dx : List (List Bytes))
    (h : ∀ d ∈ dx, ∀ t ∈ d, NoSpace t) : ∀ x ∈ dxLines trs k dx, NoByte NL x := by
  induction dx generalizing k with
  | nil => intro x hx; cases hx
  | cons d dx ih =>
    intro x hx
    simp only [dxLines, List.mem_cons] at hx
    rcases hx with rfl | hx
    · exact noNL_tokLineT _ (trail_getD trs htr k) _ (h d (by simp))
    · exact ih (k + 1) (fun e he => h e (by simp [he])) x hx

theorem noNL_natBytes (n : Nat) : NoByte NL (natBytes n) := noNL_of_noSpace _ (noSpace_natBytes n)

theorem noNL_levelsLines (nd : Nat) (ls : List LevelData) (hg : ∀ l ∈ ls, l.Good nd) (lv : Nat) :
    ∀ x ∈ levelsLines lv ls, NoByte NL x := by
  induction ls generalizing lv with
  | nil => intro x hx; cases hx
  | cons l ls ih =>
    obtain ⟨_, ht2, hstep, _, hdir, htail, hb⟩ := hg l (by simp)
    intro x hx
    simp only [levelsLines, levelLines, List.mem_append, List.mem_cons, List.not_mem_nil, or_false,
      List.mem_flatMap] at hx
    rcases hx with ((((rfl | rfl) | ⟨b, hbm, hxb⟩) | rfl) | hx)
    · apply noNL_tokLine
      intro t ht; simp at ht; rcases ht with rfl | rfl | rfl
      · exact noSpace_natBytes _
      · exact noSpace_natBytes _
      · exact ht2
    · exact hstep
    · simp only [boxLines, List.mem_map] at hxb
      obtain ⟨p, hp, rfl⟩ := hxb
      obtain ⟨h1, h2⟩ := (hb b hbm).2 p hp
      apply noNL_tokLine
      intro t ht; simp at ht; rcases ht with rfl | rfl
      · exact h1.2.1
      · exact h2.2.1
    · intro y hy
      rcases List.mem_append.mp hy with h1 | h1
      · exact hdir y h1
      · rcases List.mem_cons.mp h1 with rfl | h2
        · decide
        · exact htail y h2
    · exact ih (fun m hm => hg m (by simp [hm])) (lv + 1) x hx

theorem noNL_renderLines (H : HData) (hg : H.Good) : ∀ x ∈ renderLines H ++ [[]], NoByte NL x := by
  intro x hx
  have htA : ∀ t ∈ H.trails, ∀ b ∈ t, isSpace b = true ∧ b ≠ NL := fun t ht => hg.trail t (List.mem_append_left _ ht)
  have htB : ∀ t ∈ H.dxTrails, ∀ b ∈ t, isSpace b = true ∧ b ≠ NL := fun t ht => hg.trail t (List.mem_append_right _ ht)
  simp only [renderLines, midLines, List.mem_append, List.mem_cons, List.not_mem_nil, or_false] at hx
  rcases hx with ((rfl | rfl) | hn | (rfl | rfl | rfl | rfl | rfl | rfl | rfl | rfl) | hd | (rfl | rfl) | hl) | rfl
  · exact hg.version
  · exact noNL_natBytes _
  · exact hg.names x hn
  · exact noNL_natBytes _
  · exact hg.time.1
  · exact noNL_natBytes _
  · exact noNL_tokLineT _ (trail_getD _ htA 0) _ (fun t ht => (hg.geoLo.1 t ht).2.1)
  · exact noNL_tokLineT _ (trail_getD _ htA 1) _ (fun t ht => (hg.geoHi.1 t ht).2.1)
  · exact noNL_tokLineT _ (trail_getD _ htA 2) _ (fun t ht => by obtain ⟨i, _, rfl⟩ := List.mem_map.mp ht; exact noSpace_intBytes i)
  · exact noNL_tokLineT _ (trail_getD _ htA 3) _ (fun t ht => (gridBlock_toks _ t ht).2)
  · exact noNL_tokLineT _ (trail_getD _ htA 4) _ (fun t ht => by obtain ⟨i, _, rfl⟩ := List.mem_map.mp ht; exact noSpace_intBytes i)
  · exact noNL_dxLines _ htB 0 H.dx (fun d hd t ht => ((hg.dx.2 d hd).2 t ht).2.1) x hd
  · exact hg.coord
  · intro b hb; simp at hb; subst hb; decide
  · exact noNL_levelsLines H.ndims H.levels hg.levels.2 0 x hl
  · intro b hb; cases hb

theorem lines_render (H : HData) (hg : H.Good) : splitOn 10 (render H) = renderLines H ++ [[]] :=
  splitOn_joinSep NL _ (by simp) (noNL_renderLines H hg)

/-! ### the whole header -/

theorem foldl_congr_mem {α β} (f g : α → β → α) (l : List β) (a : α) (h : ∀ x ∈ l, ∀ t, f t x = g t x) :
    l.foldl f a = l.foldl g a := by
  induction l generalizing a with
  | nil => rfl
  | cons x l ih =>
    simp only [List.foldl_cons, h x (by simp)]
    exact ih _ (fun y hy => h y (by simp [hy]))

theorem table_render (line : Nat → Bytes) (names : List Bytes) (hs : Seg line 2 names) :
    (List.range names.length).foldl (fun t i => addField t (line (2 + i)) i) [] = tableOf names := by
  unfold tableOf
  apply foldl_congr_mem
  intro i hi t
  have hi' : i < names.length := List.mem_range.mp hi
  rw [hs i hi']
  simp [List.getD, hi']

theorem levelsLines_append (lv : Nat) (a b : List LevelData) :
    levelsLines lv (a ++ b) = levelsLines lv a ++ levelsLines (lv + a.length) b := by
  induction a generalizing lv with
  | nil => simp [levelsLines]
  | cons x a ih =>
    simp only [List.cons_append, levelsLines, ih, List.append_assoc, List.length_cons]
    rw [show lv + 1 + a.length = lv + (a.length + 1) by omega]

theorem gridsOK_render (H : HData) (hg : H.Good) (n : Nat) (hn : n ≤ H.levels.length) :
    gridsOK H.ndims H.dx (H.gridHi.map (·.map (· + 1))) n = true := by
  unfold gridsOK
  rw [List.all_eq_true]
  intro lv hlv
  have hlv' : lv < n := List.mem_range.mp hlv
  have h1 : lv < H.dx.length := by rw [hg.dx.1]; omega
  have h2 : lv < H.gridHi.length := by rw [hg.grid.1]; omega
  have hd := hg.dx.2 (H.dx[lv]) (List.getElem_mem h1)
  have hgr := hg.grid.2 (H.gridHi[lv]) (List.getElem_mem h2)
  have e1 : H.dx.getD lv [] = H.dx[lv] := by simp [List.getD, h1]
  have e2 : (H.gridHi.map (·.map (· + 1))).getD lv [] = (H.gridHi[lv]).map (· + 1) := by simp [List.getD, h2]
  have hneg : ((H.gridHi[lv]).map (· + 1)).any (· < 0) = false := by
    rw [List.any_eq_false]
    intro x hx
    obtain ⟨y, hy, rfl⟩ := List.mem_map.mp hx
    have := hgr.2.2 y hy
    simp; omega
  simp only [e1, e2, hneg, List.length_map, h1, h2, hd.1, hgr.2.1, decide_true, Bool.not_false, Bool.and_self]

/-- what the reader returns for the header text of `H` with levels `0..n-1` selected -/
theorem parse_render_core (H : HData) (hg : H.Good) (limit : Option Int) (n : Nat) (hn1 : 1 ≤ n) (hn : n ≤ H.levels.length)
    (hlim : (limit = none ∧ n = H.levels.length) ∨ limit = some ((n - 1 : Nat) : Int)) :
    parse (render H) limit = .ok (H.meta n) := by
  have hL : 1 ≤ H.levels.length := by omega
  unfold parse
  rw [lines_render H hg]
  have hseg : Seg (fun i => (renderLines H ++ [[]]).getD i []) 0 (renderLines H ++ [[]]) := by
    intro j hj
    simp only [Nat.zero_add, List.getD, List.getElem?_eq_getElem hj, Option.getD_some]
  generalize hline : (fun i => (renderLines H ++ [[]]).getD i []) = line at hseg
  have hlinedef : ∀ i, (renderLines H ++ [[]]).getD i [] = line i := fun i => by rw [← hline]
  simp only [hlinedef]
  -- the segments
  obtain ⟨hall, _⟩ := seg_append hseg
  unfold renderLines at hall
  obtain ⟨hpre, h1⟩ := seg_append hall
  obtain ⟨hv, hpre2⟩ := seg_cons hpre
  obtain ⟨hnv, _⟩ := seg_cons hpre2
  obtain ⟨hnames, h2⟩ := seg_append h1
  obtain ⟨hmid, h3⟩ := seg_append h2
  obtain ⟨hdx, h4⟩ := seg_append h3
  obtain ⟨hcz, hlv⟩ := seg_append h4
  simp only [List.length_cons, List.length_nil, Nat.zero_add, List.length_map, midLines, dxLines_length] at hnames hmid hdx hcz hlv h2 h3 h4
  obtain ⟨m0, hm⟩ := seg_cons hmid
  obtain ⟨m1, hm⟩ := seg_cons hm
  obtain ⟨m2, hm⟩ := seg_cons hm
  obtain ⟨m3, hm⟩ := seg_cons hm
  obtain ⟨m4, hm⟩ := seg_cons hm
  obtain ⟨m5, hm⟩ := seg_cons hm
  obtain ⟨m6, hm⟩ := seg_cons hm
  obtain ⟨m7, _⟩ := seg_cons hm
  obtain ⟨c0, hc⟩ := seg_cons hcz
  obtain ⟨c1, _⟩ := seg_cons hc
  -- the fixed lines, at the indices the parser uses
  have e1 : line 1 = natBytes H.names.length := by simpa using hnv
  have hnames' : Seg line 2 H.names := hnames
  have f0 : line (2 + H.names.length) = natBytes H.ndims := m0
  have f1 : line (2 + H.names.length + 1) = H.time := m1
  have f2 : line (2 + H.names.length + 2) = natBytes (H.levels.length - 1) := m2
  have f3 : line (2 + H.names.length + 3) = tokLineT (trailAt H.trails 0) H.geoLo := m3
  have f4 : line (2 + H.names.length + 4) = tokLineT (trailAt H.trails 1) H.geoHi := m4
  have f5 : line (2 + H.names.length + 5) = tokLineT (trailAt H.trails 2) (H.factors.map intBytes) := m5
  have f6 : line (2 + H.names.length + 6) = tokLineT (trailAt H.trails 3) (H.gridHi.flatMap gridBlock) := m6
  have f7 : line (2 + H.names.length + 7) = tokLineT (trailAt H.trails 4) (H.steps.map intBytes) := m7
  have hdx' : Seg line (2 + H.names.length + 8) (dxLines H.dxTrails 0 H.dx) := hdx
  have g1 : line (2 + H.names.length + 8 + H.levels.length + 1) = [48] := by
    rw [← hg.dx.1]; exact c1
  have hlv' : Seg line (2 + H.names.length + 8 + H.levels.length + 2) (levelsLines 0 H.levels) := by
    rw [← hg.dx.1]; exact hlv
  have hml : ((H.levels.length - 1 : Nat) : Int) + 1 = (H.levels.length : Int) := by omega
  have hnn : ¬ ((H.names.length : Int) < 0) := by omega
  have hmn : ¬ ((H.levels.length : Int) < 0) := by omega
  have hzero : pyInt [48] = some 0 := by decide
  have heta : (fun i => line i) = line := rfl
  have htr : ∀ k, ∀ b ∈ trailAt H.trails k, isSpace b = true := fun k b hb =>
    (trail_getD _ (fun t ht => hg.trail t (List.mem_append_left _ ht)) k b hb).1
  have htrd : ∀ k, ∀ b ∈ trailAt H.dxTrails k, isSpace b = true := fun k b hb =>
    (trail_getD _ (fun t ht => hg.trail t (List.mem_append_right _ ht)) k b hb).1
  have hdxp := parseDx_render line H.dxTrails htrd H.dx (fun d hd => (hg.dx.2 d hd).2) (2 + H.names.length + 8) 0 hdx'
  rw [hg.dx.1] at hdxp
  -- the selected level blocks
  have hsplit : H.levels = H.levels.take n ++ H.levels.drop n := (List.take_append_drop n _).symm
  have hlen : (H.levels.take n).length = n := by rw [List.length_take]; omega
  have happ := levelsLines_append 0 (H.levels.take n) (H.levels.drop n)
  rw [← hsplit] at happ
  have hlvt : Seg line (2 + H.names.length + 8 + H.levels.length + 2) (levelsLines 0 (H.levels.take n)) := by
    rw [happ] at hlv'; exact (seg_append hlv').1
  have hbound : 2 + H.names.length + 8 + H.levels.length + 2 + (levelsLines 0 (H.levels.take n)).length
      < (renderLines H ++ [[]]).length := by
    simp only [renderLines, midLines, List.length_append, List.length_cons, List.length_nil, List.length_map, dxLines_length, happ, hg.dx.1]
    omega
  have hpl := parseLevels_render line (renderLines H ++ [[]]).length H.ndims (H.levels.take n)
    (fun l hl => hg.levels.2 l (List.mem_of_mem_take hl)) _ 0 hlvt hbound
  rw [hlen] at hpl
  have hgl : ¬ (H.geoLo.length < H.ndims) := by have := hg.geoLo.2; omega
  have hgh : ¬ (H.geoHi.length < H.ndims) := by have := hg.geoHi.2; omega
  have hgrid := gridsOK_render H hg n hn
  have htab := table_render line H.names hnames'
  have hn1' : ((n - 1 : Nat) : Int) + 1 = (n : Int) := by omega
  have hle : ((n - 1 : Nat) : Int) ≤ ((H.levels.length - 1 : Nat) : Int) := by omega
  clear hall hpre h1 hpre2 hnames hmid hdx hcz hlv h2 h3 h4 m0 m1 m2 m3 m4 m5 m6 m7 c1 hc hseg hlinedef hline
  simp only [e1, pyInt_natBytes, hnn, if_false, Int.toNat_natCast, f0, f1, f2, f3, f4, f5, f6, f7, hg.time.2,
    Bool.not_true, Bool.false_eq_true, floatTokens_tokLineT _ (htr 0) _ hg.geoLo.1, floatTokens_tokLineT _ (htr 1) _ hg.geoHi.1,
    intTokens_tokLineT _ (htr 2), intTokens_tokLineT _ (htr 4), grid_line _ (htr 3) H.gridHi (fun g hgm => (hg.grid.2 g hgm).1), hml, hmn, heta, hdxp, g1, hzero,
    ne_eq, not_true_eq_false]
  rcases hlim with ⟨rfl, rfl⟩ | rfl
  · simp only [hml, Int.toNat_natCast, hpl, hgl, hgh, decide_false, Bool.or_self, Bool.false_eq_true, if_false, hgrid,
      Bool.not_true, htab, hv, HData.meta, List.map_map]
    rfl
  · simp only [hle, if_true, hn1', Int.toNat_natCast, hpl, hgl, hgh, decide_false, Bool.or_self, Bool.false_eq_true, if_false,
      hgrid, Bool.not_true, htab, hv, HData.meta, List.map_map]
    rfl

/-- a level limit above the finest level of the header is refused -/
theorem parse_render_limit_above (H : HData) (hg : H.Good) (l : Int) (hl : (H.levels.length : Int) ≤ l) :
    parse (render H) (some l) = .refused "limit" := by
  have hL : 1 ≤ H.levels.length := List.length_pos_iff.mpr hg.levels.1
  unfold parse
  rw [lines_render H hg]
  have hseg : Seg (fun i => (renderLines H ++ [[]]).getD i []) 0 (renderLines H ++ [[]]) := by
    intro j hj
    simp only [Nat.zero_add, List.getD, List.getElem?_eq_getElem hj, Option.getD_some]
  generalize hline : (fun i => (renderLines H ++ [[]]).getD i []) = line at hseg
  have hlinedef : ∀ i, (renderLines H ++ [[]]).getD i [] = line i := fun i => by rw [← hline]
  simp only [hlinedef]
  -- the segments
  obtain ⟨hall, _⟩ := seg_append hseg
  unfold renderLines at hall
  obtain ⟨hpre, h1⟩ := seg_append hall
  obtain ⟨hv, hpre2⟩ := seg_cons hpre
  obtain ⟨hnv, _⟩ := seg_cons hpre2
  obtain ⟨hnames, h2⟩ := seg_append h1
  obtain ⟨hmid, h3⟩ := seg_append h2
  obtain ⟨hdx, h4⟩ := seg_append h3
  obtain ⟨hcz, hlv⟩ := seg_append h4
  simp only [List.length_cons, List.length_nil, Nat.zero_add, List.length_map, midLines, dxLines_length] at hnames hmid hdx hcz hlv h2 h3 h4
  obtain ⟨m0, hm⟩ := seg_cons hmid
  obtain ⟨m1, hm⟩ := seg_cons hm
  obtain ⟨m2, hm⟩ := seg_cons hm
  obtain ⟨m3, hm⟩ := seg_cons hm
  obtain ⟨m4, hm⟩ := seg_cons hm
  obtain ⟨m5, hm⟩ := seg_cons hm
  obtain ⟨m6, hm⟩ := seg_cons hm
  obtain ⟨m7, _⟩ := seg_cons hm
  obtain ⟨c0, hc⟩ := seg_cons hcz
  obtain ⟨c1, _⟩ := seg_cons hc
  -- the fixed lines, at the indices the parser uses
  have e1 : line 1 = natBytes H.names.length := by simpa using hnv
  have hnames' : Seg line 2 H.names := hnames
  have f0 : line (2 + H.names.length) = natBytes H.ndims := m0
  have f1 : line (2 + H.names.length + 1) = H.time := m1
  have f2 : line (2 + H.names.length + 2) = natBytes (H.levels.length - 1) := m2
  have f3 : line (2 + H.names.length + 3) = tokLineT (trailAt H.trails 0) H.geoLo := m3
  have f4 : line (2 + H.names.length + 4) = tokLineT (trailAt H.trails 1) H.geoHi := m4
  have f5 : line (2 + H.names.length + 5) = tokLineT (trailAt H.trails 2) (H.factors.map intBytes) := m5
  have f6 : line (2 + H.names.length + 6) = tokLineT (trailAt H.trails 3) (H.gridHi.flatMap gridBlock) := m6
  have f7 : line (2 + H.names.length + 7) = tokLineT (trailAt H.trails 4) (H.steps.map intBytes) := m7
  have hdx' : Seg line (2 + H.names.length + 8) (dxLines H.dxTrails 0 H.dx) := hdx
  have g1 : line (2 + H.names.length + 8 + H.levels.length + 1) = [48] := by
    rw [← hg.dx.1]; exact c1
  have hlv' : Seg line (2 + H.names.length + 8 + H.levels.length + 2) (levelsLines 0 H.levels) := by
    rw [← hg.dx.1]; exact hlv
  have hml : ((H.levels.length - 1 : Nat) : Int) + 1 = (H.levels.length : Int) := by omega
  have hnn : ¬ ((H.names.length : Int) < 0) := by omega
  have hmn : ¬ ((H.levels.length : Int) < 0) := by omega
  have hzero : pyInt [48] = some 0 := by decide
  have heta : (fun i => line i) = line := rfl
  have htr : ∀ k, ∀ b ∈ trailAt H.trails k, isSpace b = true := fun k b hb =>
    (trail_getD _ (fun t ht => hg.trail t (List.mem_append_left _ ht)) k b hb).1
  have htrd : ∀ k, ∀ b ∈ trailAt H.dxTrails k, isSpace b = true := fun k b hb =>
    (trail_getD _ (fun t ht => hg.trail t (List.mem_append_right _ ht)) k b hb).1
  have hdxp := parseDx_render line H.dxTrails htrd H.dx (fun d hd => (hg.dx.2 d hd).2) (2 + H.names.length + 8) 0 hdx'
  rw [hg.dx.1] at hdxp
  simp only [e1, pyInt_natBytes, hnn, if_false, Int.toNat_natCast, f0, f1, f2, f3, f4, f5, f6, f7, hg.time.2,
    Bool.not_true, Bool.false_eq_true, floatTokens_tokLineT _ (htr 0) _ hg.geoLo.1, floatTokens_tokLineT _ (htr 1) _ hg.geoHi.1,
    intTokens_tokLineT _ (htr 2), intTokens_tokLineT _ (htr 4), grid_line _ (htr 3) H.gridHi (fun g hgm => (hg.grid.2 g hgm).1), hml, hmn, heta, hdxp, g1, hzero,
    ne_eq, not_true_eq_false]
  have hnle : ¬ (l ≤ ((H.levels.length - 1 : Nat) : Int)) := by omega
  simp only [hnle, if_false]

/-- **`parse ∘ render`, all levels**: the text printed for `H` is read back as exactly `H` -/
theorem parse_render (H : HData) (hg : H.Good) : parse (render H) none = .ok (H.meta H.levels.length) :=
  parse_render_core H hg none _ (List.length_pos_iff.mpr hg.levels.1) (Nat.le_refl _) (Or.inl ⟨rfl, rfl⟩)

/-- **`parse ∘ render` under a level limit `l`**: the same metadata with the per-level lists cut after level `l` -/
theorem parse_render_limit (H : HData) (hg : H.Good) (l : Nat) (hl : l < H.levels.length) :
    parse (render H) (some (l : Int)) = .ok (H.meta (l + 1)) :=
  parse_render_core H hg (some l) (l + 1) (by omega) (by omega) (Or.inr (by simp))

/-- with pairwise distinct names the field table is the list of names with their positions -/
theorem tableOf_prefix (names : List Bytes) (h : names.Nodup) (k : Nat) (hk : k ≤ names.length) :
    (List.range k).foldl (fun t i => addField t (names.getD i []) i) [] = (names.take k).zipIdx := by
  induction k with
  | zero => simp
  | succ k ih =>
    have hk' : k < names.length := by omega
    rw [List.range_succ, List.foldl_append, ih (by omega)]
    simp only [List.foldl_cons, List.foldl_nil]
    have hget : names.getD k [] = names[k] := by simp [List.getD, hk']
    have hfresh : names[k] ∉ ((names.take k).zipIdx).map (·.1) := by
      rw [List.zipIdx_map_fst]
      intro hmem
      obtain ⟨j, hj, hjk⟩ := List.getElem_of_mem hmem
      have hj' : j < k := by simpa [List.length_take, Nat.min_eq_left (Nat.le_of_lt hk')] using hj
      rw [List.getElem_take] at hjk
      have := (List.getElem_inj (h₀ := by omega) (h₁ := hk') h).mp hjk
      omega
    rw [hget, addField_fresh _ _ _ hfresh, List.take_succ_eq_append_getElem hk', List.zipIdx_append]
    simp [List.length_take, Nat.min_eq_left (Nat.le_of_lt hk')]

theorem tableOf_nodup (names : List Bytes) (h : names.Nodup) : tableOf names = names.zipIdx := by
  unfold tableOf
  rw [tableOf_prefix names h names.length (Nat.le_refl _), List.take_length]

/-! ### the executable hypothesis check is sound -/

theorem noNLB_sound (s : Bytes) (h : noNLB s = true) : NoByte NL s := by
  intro b hb
  have := List.all_eq_true.mp h b hb
  simpa using this

theorem noSpaceB_sound (s : Bytes) (h : noSpaceB s = true) : NoSpace s := by
  intro b hb
  have := List.all_eq_true.mp h b hb
  simpa using this

theorem ftokB_sound (t : Bytes) (h : ftokB t = true) : FTok t := by
  unfold ftokB at h
  simp only [Bool.and_eq_true, Bool.not_eq_true', List.isEmpty_eq_false_iff] at h
  exact ⟨h.1.1, noSpaceB_sound t h.1.2, h.2⟩

theorem LevelData.goodB_sound (nd : Nat) (l : LevelData) (h : l.goodB nd = true) : l.Good nd := by
  unfold LevelData.goodB at h
  simp only [Bool.and_eq_true, Bool.not_eq_true', List.isEmpty_eq_false_iff, List.all_eq_true, beq_iff_eq] at h
  obtain ⟨⟨⟨⟨⟨⟨h1, h2⟩, h3⟩, h4⟩, h5⟩, h6⟩, h7⟩ := h
  refine ⟨h1, noSpaceB_sound _ h2, noNLB_sound _ h3, ?_, noNLB_sound _ h5, noNLB_sound _ h6, ?_⟩
  · intro b hb; simpa using h4 b hb
  · intro b hb
    obtain ⟨hl, hp⟩ := h7 b hb
    exact ⟨hl, fun p hpm => ⟨ftokB_sound _ (hp p hpm).1, ftokB_sound _ (hp p hpm).2⟩⟩

/-- the executable check the driver runs on real headers implies the hypothesis of `parse_render` -/
theorem HData.goodB_sound (H : HData) (h : H.goodB = true) : H.Good := by
  unfold HData.goodB at h
  simp only [Bool.and_eq_true, Bool.not_eq_true', List.isEmpty_eq_false_iff, List.all_eq_true, beq_iff_eq,
    decide_eq_true_eq] at h
  obtain ⟨⟨⟨⟨⟨⟨⟨⟨⟨⟨⟨⟨⟨⟨⟨h1, h2⟩, h3⟩, h4⟩, h5⟩, h6⟩, h7⟩, h8⟩, h9⟩, h10⟩, h11⟩, h12⟩, h13⟩, h14⟩, h15⟩, h16⟩ := h
  exact {
    version := noNLB_sound _ h1
    names := fun n hn => noNLB_sound _ (h2 n hn)
    time := ⟨noNLB_sound _ h3, h4⟩
    geoLo := ⟨fun t ht => ftokB_sound _ (h5 t ht), h6⟩
    geoHi := ⟨fun t ht => ftokB_sound _ (h7 t ht), h8⟩
    grid := ⟨h9, fun hi hhi => ⟨(h10 hi hhi).1.1, (h10 hi hhi).1.2, (h10 hi hhi).2⟩⟩
    dx := ⟨h11, fun d hd => ⟨(h12 d hd).1, fun t ht => ftokB_sound _ ((h12 d hd).2 t ht)⟩⟩
    coord := noNLB_sound _ h13
    levels := ⟨h14, fun l hl => LevelData.goodB_sound _ l (h15 l hl)⟩
    trail := fun t ht b hb => by simpa using h16 t ht b hb }

end Header
