import AmrK.Codec
import AmrK.ReaderProofs
import AmrK.TasteProofs
/-! Probe: the validator's byte walk accepts every well-formed binary file (C03 core). -/
namespace Taste
open Py

theorem not_mem_10_of_noSpace (s : Bytes) (h : NoSpace s) : (10 : UInt8) ∉ s := by
  intro hm
  have := h 10 hm
  revert this; decide

theorem sepJoin_append (a b : List (Bytes × UInt8)) : sepJoin (a ++ b) = sepJoin a ++ sepJoin b := by
  induction a with
  | nil => rfl
  | cons p a ih =>
    obtain ⟨t, s⟩ := p
    simp only [List.cons_append, sepJoin, ih, List.append_assoc, List.cons_append]

theorem not_mem_10_sepJoin (l : List (Bytes × UInt8)) (h : ∀ p ∈ l, NoSpace p.1 ∧ p.2 = 32) :
    (10 : UInt8) ∉ sepJoin l := by
  induction l with
  | nil => intro hm; cases hm
  | cons p l ih =>
    obtain ⟨t, s⟩ := p
    obtain ⟨h1, h2⟩ := h (t, s) List.mem_cons_self
    simp only at h2
    subst h2
    unfold sepJoin
    intro hm
    rcases List.mem_append.mp hm with hm | hm
    · exact not_mem_10_of_noSpace t h1 hm
    · rcases List.mem_cons.mp hm with hm | hm
      · revert hm; decide
      · exact ih (fun q hq => h q (List.mem_cons_of_mem _ hq)) hm

/-- a canonical header is exactly one newline-terminated line -/
theorem isLine_canonB (lo hi : List Int) (nf : Nat) : Reader.IsLine (canonB lo hi nf) := by
  have hok := canon_tokens_ok lo hi nf
  refine ⟨sepJoin (prefixToks.map (·, 32) ++ [(tokStart lo, 32), (tokStop hi, 32), (tokType hi.length, 32)])
            ++ natBytes nf, ?_, ?_⟩
  · unfold canonB
    have : prefixToks.map (·, (32 : UInt8)) ++ [(tokStart lo, 32), (tokStop hi, 32), (tokType hi.length, 32), (natBytes nf, 10)]
        = (prefixToks.map (·, (32 : UInt8)) ++ [(tokStart lo, 32), (tokStop hi, 32), (tokType hi.length, 32)]) ++ [(natBytes nf, 10)] := by
      simp
    rw [this, sepJoin_append]
    simp [sepJoin, NL]
  · intro hm
    rcases List.mem_append.mp hm with hm | hm
    · refine not_mem_10_sepJoin _ ?_ hm
      intro p hp
      have hp' : p ∈ prefixToks.map (·, (32 : UInt8)) ++ lastFour lo hi nf := by
        rcases List.mem_append.mp hp with h | h
        · exact List.mem_append.mpr (Or.inl h)
        · apply List.mem_append.mpr; right
          unfold lastFour
          simp only [List.mem_cons, List.mem_nil_iff, or_false] at h ⊢
          rcases h with h | h | h <;> simp [h]
      refine ⟨(hok p hp').1.2.1, ?_⟩
      rcases List.mem_append.mp hp with h | h
      · obtain ⟨t, _, rfl⟩ := List.mem_map.mp h; rfl
      · simp only [List.mem_cons, List.mem_nil_iff, or_false] at h
        rcases h with rfl | rfl | rfl <;> rfl
    · exact not_mem_10_of_noSpace _ (noSpace_digits _ (natBytes_spec nf).1) hm

/-- a well-formed binary file: canonical header, payload of the announced size, … -/
def fileOf (nf : Nat) : List (Entry × Bytes) → Bytes
  | [] => []
  | (e, P) :: rest => canonHeader e.lo e.hi nf ++ P ++ fileOf nf rest

structure GoodSeg (nf : Nat) (p : Entry × Bytes) : Prop where
  lo_ne : p.1.lo ≠ []
  hi_ne : p.1.hi ≠ []
  len : p.1.lo.length = p.1.hi.length
  size : (p.2.length : Int) = (⟨p.1.lo, p.1.hi, (nf : Int)⟩ : Hdr).nbytes

theorem go_complete (nf : Nat) : ∀ (eps : List (Entry × Bytes)) (pre : Bytes) (e : Entry) (P : Bytes),
    (∀ p ∈ (e, P) :: eps, GoodSeg nf p) →
    shapeOK.go (pre ++ fileOf nf ((e, P) :: eps)) nf (canonHeader e.lo e.hi nf)
      ((pre.length : Int) + ((canonHeader e.lo e.hi nf).length : Int)) (e :: eps.map (·.1)) = true := by
  intro eps
  induction eps with
  | nil =>
    intro pre e P hg
    have g := hg (e, P) List.mem_cons_self
    unfold shapeOK.go
    simp only [List.map_nil]
    rw [show canonHeader e.lo e.hi nf = canonB e.lo e.hi nf from rfl, parse_canonB e.lo e.hi nf g.lo_ne g.hi_ne g.len]
    simp only [fileOf, List.append_nil, List.length_append, Bool.and_eq_true, decide_eq_true_eq, beq_iff_eq]
    have hs := g.size
    simp only at hs
    have hcan : canonHeader e.lo e.hi nf = canonB e.lo e.hi nf := rfl
    rw [hcan]
    constructor <;> (push_cast; omega)
  | cons q eps ih =>
    intro pre e P hg
    obtain ⟨e2, P2⟩ := q
    have g := hg (e, P) List.mem_cons_self
    have hcan : canonHeader e.lo e.hi nf = canonB e.lo e.hi nf := rfl
    have hs := g.size
    simp only at hs
    have hnn : (0 : Int) ≤ (⟨e.lo, e.hi, (nf : Int)⟩ : Hdr).nbytes := by rw [← hs]; omega
    unfold shapeOK.go
    simp only [List.map_cons]
    rw [hcan, parse_canonB e.lo e.hi nf g.lo_ne g.hi_ne g.len]
    simp only
    -- the next position
    have hpos : ((pre.length : Int) + ((canonB e.lo e.hi nf).length : Int) + (⟨e.lo, e.hi, (nf : Int)⟩ : Hdr).nbytes)
        = ((pre ++ canonB e.lo e.hi nf ++ P : Bytes).length : Int) := by
      simp only [List.length_append]; push_cast; omega
    rw [hpos]
    have hnneg : ¬ (((pre ++ canonB e.lo e.hi nf ++ P : Bytes).length : Int) < 0) := by omega
    simp only [hnneg, if_false, Int.toNat_natCast]
    have hdrop : (pre ++ fileOf nf ((e, P) :: (e2, P2) :: eps)).drop (pre ++ canonB e.lo e.hi nf ++ P).length
        = fileOf nf ((e2, P2) :: eps) := by
      have : pre ++ fileOf nf ((e, P) :: (e2, P2) :: eps)
          = (pre ++ canonB e.lo e.hi nf ++ P) ++ fileOf nf ((e2, P2) :: eps) := by
        simp [fileOf, hcan, List.append_assoc]
      rw [this, List.drop_left]
    rw [hdrop]
    have hline : lineOf (fileOf nf ((e2, P2) :: eps)) = canonHeader e2.lo e2.hi nf := by
      simp only [fileOf, List.append_assoc]
      exact Reader.lineOf_line _ _ (isLine_canonB e2.lo e2.hi nf)
    rw [hline]
    simp only [beq_self_eq_true, if_true]
    have := ih (pre ++ canonB e.lo e.hi nf ++ P) e2 P2 (fun p hp => hg p (List.mem_cons_of_mem _ hp))
    have hraw : pre ++ canonB e.lo e.hi nf ++ P ++ fileOf nf ((e2, P2) :: eps)
        = pre ++ fileOf nf ((e, P) :: (e2, P2) :: eps) := by
      simp [fileOf, hcan, List.append_assoc]
    rw [hraw] at this
    exact this

/-- **C03 core (`mp_fun_shape`).**  Every well-formed binary file — canonical FABs of the
    announced sizes, one per level-header entry in offset order — is accepted by the walk. -/
theorem shapeOK_complete (nf : Nat) (e : Entry) (P : Bytes) (eps : List (Entry × Bytes))
    (hg : ∀ p ∈ (e, P) :: eps, GoodSeg nf p) :
    shapeOK (fileOf nf ((e, P) :: eps)) nf (e :: eps.map (·.1)) = true := by
  unfold shapeOK
  have hline : lineOf (fileOf nf ((e, P) :: eps)) = canonHeader e.lo e.hi nf := by
    simp only [fileOf, List.append_assoc]
    exact Reader.lineOf_line _ _ (isLine_canonB e.lo e.hi nf)
  simp only [hline]
  have := go_complete nf eps [] e P hg
  simpa using this

end Taste

namespace Taste
open Py

/-- `mp_fun_headers` accepts an entry whose recorded offset is the start of its canonical header -/
theorem headersOK_entry (nf : Nat) (e : Entry) (pre post : Bytes)
    (hlo : e.lo ≠ []) (hhi : e.hi ≠ []) (hlen : e.lo.length = e.hi.length)
    (hoff : e.offset = (pre.length : Int)) :
    headersOK (pre ++ canonHeader e.lo e.hi nf ++ post) nf [e] = true := by
  unfold headersOK
  simp only [List.all_cons, List.all_nil, Bool.and_true]
  have hneg : ¬ ((pre.length : Int) < 0) := by omega
  simp only [hoff, hneg, if_false, Int.toNat_natCast]
  have hdrop : (pre ++ canonHeader e.lo e.hi nf ++ post).drop pre.length = canonHeader e.lo e.hi nf ++ post := by
    simp [List.append_assoc]
  have hline : lineOf (canonHeader e.lo e.hi nf ++ post) = canonB e.lo e.hi nf :=
    Reader.lineOf_line _ _ (isLine_canonB e.lo e.hi nf)
  rw [hdrop, hline, parse_canonB e.lo e.hi nf hlo hhi hlen]
  simp

end Taste
