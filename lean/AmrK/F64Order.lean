import AmrK.TasteData
import AmrK.F64Text
import AmrK.TasteCoordsProofs
import AmrK.ExtremaProofs
import Mathlib.Tactic.Ring
import Mathlib.Tactic.Linarith
import Mathlib.Tactic.Positivity
import Mathlib.Algebra.Order.Field.Rat
/-! Order of IEEE-754 binary64 values on their bit patterns: among the non-negative finite patterns the value grows
    strictly with the pattern (so the neighbours of a double are the patterns `w - 1` and `w + 1`), and what a *nearest
    double* of a rational is. -/
namespace F64
open Extrema

/-- the largest finite magnitude pattern plus one (`0x7FF0000000000000`) -/
def infBits : Nat := 2047 * 2 ^ 52

theorem fields (w : Nat) (h : w < infBits) : expField w = w / 2 ^ 52 ∧ expField w < 2047 ∧ manField w < 2 ^ 52 ∧
    w = expField w * 2 ^ 52 + manField w := by
  unfold infBits at h
  have h1 : w / 2 ^ 52 < 2047 := Nat.div_lt_of_lt_mul (by omega)
  have he : expField w = w / 2 ^ 52 := by unfold expField; exact Nat.mod_eq_of_lt (by omega)
  refine ⟨he, by omega, Nat.mod_lt _ (by positivity), ?_⟩
  rw [he]; unfold manField
  have := Nat.div_add_mod w (2 ^ 52)
  rw [Nat.mul_comm] at this
  omega

/-- **strict monotonicity on magnitudes**: a larger finite pattern has a larger numerator -/
theorem num_strictMono (a b : Nat) (hab : a < b) (hb : b < infBits) : num a < num b := by
  obtain ⟨_, _, hma, ha⟩ := fields a (by omega)
  obtain ⟨_, _, hmb, hb'⟩ := fields b hb
  generalize hea : expField a = ea at *
  generalize heb : expField b = eb at *
  generalize hmaa : manField a = ma at *
  generalize hmbb : manField b = mb at *
  have hcase : ea < eb ∨ (ea = eb ∧ ma < mb) := by
    rcases Nat.lt_trichotomy ea eb with h | h | h
    · exact Or.inl h
    · right; subst h; exact ⟨rfl, by omega⟩
    · exfalso
      have : (eb + 1) * 2 ^ 52 ≤ ea * 2 ^ 52 := Nat.mul_le_mul_right _ h
      have e1 : (eb + 1) * 2 ^ 52 = eb * 2 ^ 52 + 2 ^ 52 := by ring
      omega
  unfold num
  rw [hea, heb, hmaa, hmbb]
  rcases hcase with h | ⟨h, hm⟩
  · have hb0 : eb ≠ 0 := by omega
    rw [if_neg hb0]
    have hpow : 2 ^ 52 * 2 ^ (eb - 1) ≤ (2 ^ 52 + mb) * 2 ^ (eb - 1) := Nat.mul_le_mul_right _ (by omega)
    by_cases ha0 : ea = 0
    · rw [if_pos ha0]
      have : 1 ≤ 2 ^ (eb - 1) := Nat.one_le_two_pow
      calc ma < 2 ^ 52 := hma
        _ = 2 ^ 52 * 1 := by ring
        _ ≤ 2 ^ 52 * 2 ^ (eb - 1) := Nat.mul_le_mul_left _ this
        _ ≤ _ := hpow
    · rw [if_neg ha0]
      have hle : 2 ^ (ea - 1 + 1) ≤ 2 ^ (eb - 1) := Nat.pow_le_pow_right (by omega) (by omega)
      calc (2 ^ 52 + ma) * 2 ^ (ea - 1) < (2 ^ 52 + 2 ^ 52) * 2 ^ (ea - 1) :=
            Nat.mul_lt_mul_of_pos_right (by omega) (by positivity)
        _ = 2 ^ 52 * 2 ^ (ea - 1 + 1) := by ring
        _ ≤ 2 ^ 52 * 2 ^ (eb - 1) := Nat.mul_le_mul_left _ hle
        _ ≤ _ := hpow
  · subst h
    by_cases ha0 : ea = 0
    · rw [if_pos ha0, if_pos ha0]; exact hm
    · rw [if_neg ha0, if_neg ha0]
      exact Nat.mul_lt_mul_of_pos_right (by omega) (by positivity)

/-- the rational a finite non-negative pattern denotes -/
def mag (w : Nat) : Rat := (num w : Rat) / ((2 ^ 1074 : Nat) : Rat)

theorem ofBits_pos (w : Nat) (h : w < infBits) : ofBits w = .fin (mag w) := by
  obtain ⟨he, hlt, _, _⟩ := fields w h
  have hs : w / 2 ^ 63 % 2 = 0 := by
    have : w / 2 ^ 63 = 0 := Nat.div_eq_of_lt (by unfold infBits at h; omega)
    rw [this]
  unfold ofBits
  simp only [hs]
  rw [if_neg (by omega)]
  simp [mag]

/-- **values grow strictly with the pattern** (non-negative finite doubles) -/
theorem mag_strictMono (a b : Nat) (hab : a < b) (hb : b < infBits) : mag a < mag b := by
  unfold mag
  have h := num_strictMono a b hab hb
  have hd : (0 : Rat) < ((2 ^ 1074 : Nat) : Rat) := by positivity
  exact div_lt_div_of_pos_right (by exact_mod_cast h) hd

theorem mag_mono (a b : Nat) (hab : a ≤ b) (hb : b < infBits) : mag a ≤ mag b := by
  rcases Nat.lt_or_ge a b with h | h
  · exact le_of_lt (mag_strictMono a b h hb)
  · have : a = b := by omega
    rw [this]

/-! ### a nearest double -/

/-- `w` (a finite non-negative pattern) is a double nearest to `q ≥ 0` among the neighbours `w - 1`, `w + 1` -/
def nearestB (q : Rat) (w : Nat) : Bool :=
  decide (w < infBits) &&
  (w = 0 || decide (|mag w - q| ≤ |mag (w - 1) - q|)) &&
  (decide (w + 1 = infBits) || decide (|mag w - q| ≤ |mag (w + 1) - q|))

/-- **soundness of the neighbour test**: a pattern that is at least as close to `q` as its two neighbours is at least as
    close as *every* finite non-negative double -/
theorem nearestB_sound (q : Rat) (w : Nat) (h : nearestB q w = true) :
    ∀ v, v < infBits → |mag w - q| ≤ |mag v - q| := by
  unfold nearestB at h
  simp only [Bool.and_eq_true, Bool.or_eq_true, decide_eq_true_eq] at h
  obtain ⟨⟨hw, hlo⟩, hhi⟩ := h
  intro v hv
  rcases Nat.lt_trichotomy v w with hvw | hvw | hvw
  · -- v below w: the lower neighbour lies between
    have hw0 : w ≠ 0 := by omega
    have hlo' : |mag w - q| ≤ |mag (w - 1) - q| := by
      rcases hlo with h0 | h0
      · exact absurd h0 hw0
      · exact h0
    have h1 : mag v ≤ mag (w - 1) := mag_mono v (w - 1) (by omega) (by omega)
    have h2 : mag (w - 1) < mag w := mag_strictMono (w - 1) w (by omega) hw
    -- q is not below the midpoint of mag (w-1), mag w; so it is at least as far from everything below
    have hq : mag (w - 1) + mag w ≤ 2 * q ∨ True := Or.inr trivial
    by_cases hc : q ≤ mag (w - 1)
    · -- then |mag w - q| > |mag (w-1) - q| unless equal: contradiction with hlo' gives equality impossible
      have : |mag w - q| = mag w - q := abs_of_nonneg (by linarith)
      have : |mag (w - 1) - q| = mag (w - 1) - q := abs_of_nonneg (by linarith)
      linarith
    · have hc' : mag (w - 1) < q := lt_of_not_ge hc
      have hv' : |mag v - q| = q - mag v := by rw [abs_sub_comm]; exact abs_of_nonneg (by linarith)
      have hw1 : |mag (w - 1) - q| = q - mag (w - 1) := by rw [abs_sub_comm]; exact abs_of_nonneg (by linarith)
      rw [hv']; rw [hw1] at hlo'; linarith
  · rw [hvw]
  · have hwi : w + 1 ≠ infBits := by omega
    have hhi' : |mag w - q| ≤ |mag (w + 1) - q| := by
      rcases hhi with h0 | h0
      · exact absurd h0 hwi
      · exact h0
    have h1 : mag (w + 1) ≤ mag v := mag_mono (w + 1) v (by omega) hv
    have h2 : mag w < mag (w + 1) := mag_strictMono w (w + 1) (by omega) (by omega)
    by_cases hc : mag (w + 1) ≤ q
    · have : |mag w - q| = q - mag w := by rw [abs_sub_comm]; exact abs_of_nonneg (by linarith)
      have : |mag (w + 1) - q| = q - mag (w + 1) := by rw [abs_sub_comm]; exact abs_of_nonneg (by linarith)
      linarith
    · have hc' : q < mag (w + 1) := lt_of_not_ge hc
      have hv' : |mag v - q| = mag v - q := abs_of_nonneg (by linarith)
      have hw1 : |mag (w + 1) - q| = mag (w + 1) - q := abs_of_nonneg (by linarith)
      rw [hv']; rw [hw1] at hhi'; linarith

/-! ### the executable test the driver runs -/

theorem beats_le (q : Rat) (w v : Nat) (h : beats q w v = true) : |mag w - q| ≤ |mag v - q| := by
  unfold beats at h
  simp only [Bool.or_eq_true, Bool.and_eq_true, decide_eq_true_eq, TasteCoords.rabs_eq] at h
  rcases h with h | ⟨h, _⟩
  · exact le_of_lt h
  · exact le_of_eq h

/-- **the executable test is sound**: bits the driver accepts as the correctly rounded double of `q` are at least as close
    to `q` as every finite double of that sign -/
theorem nearestC_sound (q : Rat) (w : Nat) (h : nearestC q w = true) :
    w < infBits ∧ ∀ v, v < infBits → |mag w - q| ≤ |mag v - q| := by
  have hb : nearestB q w = true := by
    unfold nearestC at h
    unfold nearestB
    simp only [Bool.and_eq_true, Bool.or_eq_true, decide_eq_true_eq, beq_iff_eq] at h ⊢
    obtain ⟨⟨h1, h2⟩, h3⟩ := h
    refine ⟨⟨h1, ?_⟩, ?_⟩
    · rcases h2 with h2 | h2
      · exact Or.inl h2
      · exact Or.inr (beats_le q w (w - 1) h2)
    · rcases h3 with h3 | h3
      · exact Or.inl h3
      · exact Or.inr (beats_le q w (w + 1) h3)
  refine ⟨?_, nearestB_sound q w hb⟩
  unfold nearestC at h
  simp only [Bool.and_eq_true, decide_eq_true_eq] at h
  exact h.1.1

end F64
