import AmrK.TasteData
/-! Decimal float tokens of the headers and the doubles Python reads them as: `decimalValue` is the exact rational a token
    states (the subset of Python's float syntax the writers produce: sign, digits, fraction, exponent; `inf` / `nan`);
    `nearestC q w` decides - by looking at the two neighbouring bit patterns only - that the magnitude pattern `w` is a
    correctly rounded double for `q ≥ 0` (nearest, ties to the even pattern).  Core-only (run by the driver). -/
namespace F64
open Extrema TasteCoords

def isDigit (c : UInt8) : Bool := 48 ≤ c && c ≤ 57

/-- leading digits of a byte string: (value, how many, rest) -/
def digits : List UInt8 → Nat → Nat → Nat × Nat × List UInt8
  | c :: r, acc, n => if isDigit c then digits r (acc * 10 + (c.toNat - 48)) (n + 1) else (acc, n, c :: r)
  | [], acc, n => (acc, n, [])

def lower (c : UInt8) : UInt8 := if 65 ≤ c && c ≤ 90 then c + 32 else c

/-- sign of a token and the rest -/
def signOf : List UInt8 → Bool × List UInt8
  | 45 :: r => (true, r)
  | 43 :: r => (false, r)
  | r => (false, r)

/-- the value a token states: `(negative, magnitude)`; `none` = outside the modelled syntax -/
def decimalValue (tok : List UInt8) : Option (Bool × V) :=
  let (neg, r) := signOf tok
  let lw := r.map lower
  if lw = "inf".toUTF8.toList ∨ lw = "infinity".toUTF8.toList then some (neg, .pinf)
  else if lw = "nan".toUTF8.toList then some (neg, .nan)
  else
    let (ip, ni, r1) := digits r 0 0
    let (fp, nfr, r2) := match r1 with
      | 46 :: r' => digits r' 0 0
      | _ => (0, 0, r1)
    if ni + nfr = 0 then none else
    let mant : Nat := ip * 10 ^ nfr + fp            -- the digits as one integer, scaled by 10^nfr
    let fin (e : Int) : Option (Bool × V) :=
      let ex : Int := e - nfr
      let q : Rat := if ex ≥ 0 then ((mant * 10 ^ ex.toNat : Nat) : Rat) else (mant : Rat) / ((10 ^ (-ex).toNat : Nat) : Rat)
      some (neg, .fin q)
    match r2 with
    | [] => fin 0
    | c :: r3 =>
      if lower c ≠ 101 then none else
      let (eneg, r4) := signOf r3
      let (ev, ne, r5) := digits r4 0 0
      if ne = 0 ∨ r5 ≠ [] then none else fin (if eneg then -(ev : Int) else ev)

def magC (w : Nat) : Rat := (num w : Rat) / ((2 ^ 1074 : Nat) : Rat)

/-- closer than a neighbour, or as close and even -/
def beats (q : Rat) (w v : Nat) : Bool :=
  decide (rabs (magC w - q) < rabs (magC v - q)) || (decide (rabs (magC w - q) = rabs (magC v - q)) && w % 2 == 0)

/-- `w` is the correctly rounded finite magnitude pattern for `q ≥ 0` -/
def nearestC (q : Rat) (w : Nat) : Bool :=
  decide (w < 2047 * 2 ^ 52) && (w == 0 || beats q w (w - 1)) && (w + 1 == 2047 * 2 ^ 52 || beats q w (w + 1))

/-- a token against the bits Python reads it as: `some true` = those bits are the correctly rounded double of the stated
    value, `some false` = they are not, `none` = token outside the modelled syntax (or a magnitude beyond the finite doubles) -/
def tokenOK (tok : List UInt8) (bits : Nat) : Option Bool :=
  match decimalValue tok with
  | none => none
  | some (neg, v) =>
    let sign := bits / 2 ^ 63 % 2
    let w := bits % 2 ^ 63
    match v with
    | .nan => some (ofBits bits == .nan)
    | .pinf => some (w == 2047 * 2 ^ 52 && (sign == 1) == neg)
    | .ninf => none
    | .fin q =>
      if w ≥ 2047 * 2 ^ 52 then none      -- a magnitude Python rounds to infinity: not modelled
      else some (((sign == 1) == neg) && nearestC q w)

end F64
