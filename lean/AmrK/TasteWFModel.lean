import AmrK.TasteComplete
import AmrK.CellHCodec
import AmrK.HeaderRender
import AmrK.TasteAll
/-! Executable well-formedness of a plotfile given as bytes plus its claimed content (core-only: run by
    the driver on generated plotfiles).  `TasteWF.lean` proves that `pltWFB = true` implies that the
    validator model reports the plotfile good. -/
namespace Taste
open Py

def rowGoodB (r : BoxRow) : Bool :=
  !r.lo.isEmpty && !r.hi.isEmpty && !r.file.isEmpty && r.file.all (!isSpace ·)

def goodSegB (nf : Nat) (p : Entry × Bytes) : Bool :=
  !p.1.lo.isEmpty && !p.1.hi.isEmpty && p.1.lo.length == p.1.hi.length &&
    (p.2.length : Int) == (⟨p.1.lo, p.1.hi, (nf : Int)⟩ : Hdr).nbytes

def offsetsOKB (nf : Nat) : Nat → List (Entry × Bytes) → Bool
  | _, [] => true
  | pos, (e, P) :: rest =>
    e.offset == (pos : Int) && offsetsOKB nf (pos + (canonHeader e.lo e.hi nf).length + P.length) rest

/-- the segments of a file cut at the recorded offsets (entries in offset order): what lies between the end of an
    entry's canonical header and the next entry's offset (the end of the file for the last one) -/
def cutSegs (raw : Bytes) (nf : Nat) : List Entry → List (Entry × Bytes)
  | [] => []
  | [e] => [(e, raw.drop (e.offset.toNat + (canonHeader e.lo e.hi nf).length))]
  | e :: e2 :: rest =>
    (e, (raw.drop (e.offset.toNat + (canonHeader e.lo e.hi nf).length)).take
        (e2.offset.toNat - (e.offset.toNat + (canonHeader e.lo e.hi nf).length))) :: cutSegs raw nf (e2 :: rest)

def levelWFB (nf : Nat) (rows : List BoxRow) (files : List (String × Bytes)) : Bool :=
  rows.all rowGoodB &&
  (dedup ((rows.map BoxRow.entry).map (·.file))).all fun n =>
    match files.lookup n with
    | none => false
    | some raw =>
      let segs := cutSegs raw nf (sortByOffset ((rows.map BoxRow.entry).filter (·.file == n)))
      !segs.isEmpty && fileOf nf segs == raw && segs.all (goodSegB nf) && offsetsOKB nf 0 segs

/-- the plotfile `(header, dirs)` is the well-formed plotfile with global header content `H` and, for level `l`,
    level-header rows `lv[l].1` followed by the lines `lv[l].2`; levels `0 … n-1` are looked at -/
def pltWFB (H : Header.HData) (n : Nat) (lv : List (List BoxRow × List Bytes)) (header : Bytes)
    (dirs : List (String × LevelDir)) : Bool :=
  header == Header.render H && H.goodB && decide H.names.Nodup && decide (n ≤ lv.length) &&
  ((H.levels.take n).zip lv).all fun (l, rows, extra) =>
    match dirs.lookup (String.fromUTF8! ⟨l.dir.toArray⟩) with
    | none => false
    | some d =>
      match d.cellH with
      | none => false
      | some c => c == renderCellHExt H.names.length rows extra && extra.all (fun x => x.all (· ≠ NL)) &&
          levelWFB H.names.length rows d.files

end Taste
