import AmrK.Taste
/-! Probe: the validator's byte walk (`mp_fun_shape`) implies a declarative layout of the file (C04). -/
namespace Taste
open Py

/-- declarative layout of a (suffix of a) binary file along the entries of the level header,
    in offset order: header line, payload of the announced size, next header canonical, …,
    ending exactly at end of file -/
inductive Layout (nf : Nat) : Bytes → List Entry → Prop where
  | last (s : Bytes) (e : Entry) (hd : Hdr) :
      parseFabHeader (lineOf s) = some hd → 0 ≤ hd.nbytes →
      (s.length : Int) = ((lineOf s).length : Int) + hd.nbytes → Layout nf s [e]
  | cons (s : Bytes) (e e2 : Entry) (rest : List Entry) (hd : Hdr) :
      parseFabHeader (lineOf s) = some hd → 0 ≤ hd.nbytes →
      lineOf (s.drop ((lineOf s).length + hd.nbytes.toNat)) = canonHeader e2.lo e2.hi nf →
      Layout nf (s.drop ((lineOf s).length + hd.nbytes.toNat)) (e2 :: rest) →
      Layout nf s (e :: e2 :: rest)

/-- no line of the file parses to a header announcing a negative size (degenerate box) -/
def NoDegenerate (raw : Bytes) : Prop :=
  ∀ p hd, parseFabHeader (lineOf (raw.drop p)) = some hd → 0 ≤ hd.nbytes

theorem go_sound (raw : Bytes) (nf : Nat) (hnd : NoDegenerate raw) :
    ∀ (es : List Entry) (p : Nat), es ≠ [] → p ≤ raw.length →
      (∀ e ∈ es, canonHeader e.lo e.hi nf ≠ []) →
      shapeOK.go raw nf (lineOf (raw.drop p)) ((p : Int) + ((lineOf (raw.drop p)).length : Int)) es = true →
      Layout nf (raw.drop p) es := by
  intro es
  induction es with
  | nil => intro p h; exact absurd rfl h
  | cons e es ih =>
    intro p _ hp hcan hgo
    cases es with
    | nil =>
      unfold shapeOK.go at hgo
      split at hgo
      · cases hgo
      · rename_i hd hparse
        have hnn := hnd p hd hparse
        simp only [Bool.and_eq_true, decide_eq_true_eq, beq_iff_eq] at hgo
        refine Layout.last _ e hd hparse hnn ?_
        have : ((raw.drop p).length : Int) = (raw.length : Int) - p := by
          rw [List.length_drop]; omega
        omega
    | cons e2 rest =>
      unfold shapeOK.go at hgo
      split at hgo
      · cases hgo
      · rename_i hd hparse
        have hnn := hnd p hd hparse
        simp only at hgo
        split at hgo
        · cases hgo
        · split at hgo
          · rename_i hnonneg heq
            have heq' := beq_iff_eq.mp heq
            -- the next position as a natural number
            have hpos : ((p : Int) + ((lineOf (raw.drop p)).length : Int) + hd.nbytes).toNat
                = p + ((lineOf (raw.drop p)).length + hd.nbytes.toNat) := by omega
            rw [hpos] at heq' hgo
            have hdd : raw.drop (p + ((lineOf (raw.drop p)).length + hd.nbytes.toNat))
                = (raw.drop p).drop ((lineOf (raw.drop p)).length + hd.nbytes.toNat) := by
              rw [List.drop_drop]
            -- the next position is inside the file, otherwise the line read there is empty
            have hp' : p + ((lineOf (raw.drop p)).length + hd.nbytes.toNat) ≤ raw.length := by
              rcases Nat.lt_or_ge raw.length (p + ((lineOf (raw.drop p)).length + hd.nbytes.toNat)) with hlt | hge
              · exfalso
                have : raw.drop (p + ((lineOf (raw.drop p)).length + hd.nbytes.toNat)) = [] :=
                  List.drop_eq_nil_of_le (Nat.le_of_lt hlt)
                rw [this] at heq'
                have hne := hcan e2 (by simp)
                exact hne (by rw [← heq']; rfl)
              · exact hge
            refine Layout.cons _ e e2 rest hd hparse hnn (by rw [← hdd]; exact heq') ?_
            rw [← hdd]
            apply ih _ (by simp) hp' (fun x hx => hcan x (by simp [hx]))
            have : (p : Int) + ((lineOf (raw.drop p)).length : Int) + hd.nbytes
                + ((lineOf (raw.drop (p + ((lineOf (raw.drop p)).length + hd.nbytes.toNat)))).length : Int)
                = ((p + ((lineOf (raw.drop p)).length + hd.nbytes.toNat) : Nat) : Int)
                  + ((lineOf (raw.drop (p + ((lineOf (raw.drop p)).length + hd.nbytes.toNat)))).length : Int) := by
              omega
            rw [← this]
            exact hgo
          · cases hgo

/-- **C04 core (`mp_fun_shape`).**  If the byte walk accepts a file, the file *is* a chain of
    FABs along the level-header entries in offset order, ending exactly at end of file. -/
theorem shapeOK_sound (raw : Bytes) (nf : Nat) (es : List Entry) (hnd : NoDegenerate raw)
    (hne : es ≠ []) (hcan : ∀ e ∈ es, canonHeader e.lo e.hi nf ≠ [])
    (h : shapeOK raw nf es = true) : Layout nf raw es := by
  unfold shapeOK at h
  have := go_sound raw nf hnd es 0 hne (by omega) hcan (by simpa using h)
  simpa using this

end Taste
