import AmrK.Basic
/-! Probe: the per-axis arithmetic behind pestle's covering masks (C09). -/
namespace Pestle

/-- a fine box face aligned to the resolution: containment of `x` ⇔ containment of its entry -/
theorem aligned_lo_iff (r l x : Nat) (hr : 0 < r) (hl : l % r = 0) : l / r ≤ x / r ↔ l ≤ x := by
  constructor
  · intro h
    have h1 := Nat.div_add_mod l r
    have h2 := Nat.div_add_mod x r
    have h3 : r * (l / r) ≤ r * (x / r) := Nat.mul_le_mul_left r h
    omega
  · intro h; exact Nat.div_le_div_right h

theorem aligned_hi_iff (r h x : Nat) (hr : 0 < r) (hh : (h + 1) % r = 0) : x / r ≤ h / r ↔ x ≤ h := by
  -- h + 1 = r * q with q ≥ 1, so h / r = q - 1 and x / r ≤ q - 1 ⇔ x < r * q
  obtain ⟨q, hq⟩ : ∃ q, h + 1 = r * q := ⟨(h + 1) / r, by have := Nat.div_add_mod (h + 1) r; omega⟩
  have hq1 : 1 ≤ q := by
    rcases Nat.eq_zero_or_pos q with h0 | h0
    · subst h0; simp at hq
    · exact h0
  have hdiv : h / r = q - 1 := by
    have : h = r * (q - 1) + (r - 1) := by
      have : r * q = r * (q - 1) + r := by
        rw [← Nat.mul_succ]; congr 1; omega
      omega
    rw [this, Nat.mul_add_div hr, Nat.div_eq_of_lt (by omega)]
    simp
  rw [hdiv]
  constructor
  · intro hx
    have h2 := Nat.div_add_mod x r
    have h3 := Nat.mod_lt x hr
    have h4 : r * (x / r) ≤ r * (q - 1) := Nat.mul_le_mul_left r hx
    have h5 : r * q = r * (q - 1) + r := by rw [← Nat.mul_succ]; congr 1; omega
    omega
  · intro hx
    have hlt : x < r * q := by omega
    have : x / r < q := (Nat.div_lt_iff_lt_mul hr).mpr (by rw [Nat.mul_comm] at hlt; exact hlt)
    omega

/-- the mask slice has exactly the box's extent (so numpy's boolean indexing does not raise) -/
theorem mask_extent (r lo hi : Nat) (hr : 0 < r) (heven : r % 2 = 0)
    (hlo : (2 * lo) % r = 0) (hhi : (2 * hi + 2) % r = 0) (hle : lo ≤ hi) :
    ((2 * hi) / r - (2 * lo) / r + 1) * (r / 2) = hi + 1 - lo := by
  obtain ⟨k, rfl⟩ : ∃ k, r = 2 * k := ⟨r / 2, by omega⟩
  have hk : 0 < k := by omega
  have h1 : 2 * k / 2 = k := by omega
  rw [h1]
  obtain ⟨a, ha⟩ : ∃ a, 2 * lo = 2 * k * a := ⟨2 * lo / (2 * k), by have := Nat.div_add_mod (2 * lo) (2 * k); omega⟩
  obtain ⟨b, hb⟩ : ∃ b, 2 * hi + 2 = 2 * k * b := ⟨(2 * hi + 2) / (2 * k), by have := Nat.div_add_mod (2 * hi + 2) (2 * k); omega⟩
  have hlo' : lo = k * a := by
    have : 2 * lo = 2 * (k * a) := by rw [ha, Nat.mul_assoc]
    omega
  have hhi' : hi + 1 = k * b := by
    have : 2 * (hi + 1) = 2 * (k * b) := by rw [← Nat.mul_assoc, ← hb]; omega
    omega
  have hb1 : 1 ≤ b := by
    rcases Nat.eq_zero_or_pos b with h0 | h0
    · subst h0; simp at hhi'
    · exact h0
  have e1 : 2 * lo / (2 * k) = a := by
    rw [ha]; exact Nat.mul_div_cancel_left a (by omega)
  have e2 : 2 * hi / (2 * k) = b - 1 := by
    have : 2 * hi = 2 * k * (b - 1) + (2 * k - 2) := by
      have : 2 * k * b = 2 * k * (b - 1) + 2 * k := by rw [← Nat.mul_succ]; congr 1; omega
      omega
    rw [this, Nat.mul_add_div (by omega), Nat.div_eq_of_lt (by omega)]
    simp
  rw [e1, e2]
  have hab : a + 1 ≤ b := by
    -- k*a = lo ≤ hi < hi+1 = k*b
    have : k * a < k * b := by omega
    exact Nat.lt_of_mul_lt_mul_left this
  have : (b - 1 - a + 1) * k = k * b - k * a := by
    have : b - 1 - a + 1 = b - a := by omega
    rw [this, Nat.mul_comm, Nat.mul_sub]
  omega

/-- `next_lv_factors`: grid // (grid // r) = r when r divides the grid -/
theorem factor_eq (g r : Nat) (hr : 0 < r) (hdiv : g % r = 0) (hg : 0 < g) : g / (g / r) = r := by
  obtain ⟨q, hq⟩ : ∃ q, g = r * q := ⟨g / r, by have := Nat.div_add_mod g r; omega⟩
  have hq0 : 0 < q := by
    rcases Nat.eq_zero_or_pos q with h0 | h0
    · subst h0; simp at hq; omega
    · exact h0
  subst hq
  rw [Nat.mul_div_cancel_left q hr, Nat.mul_div_cancel _ hq0]

end Pestle
