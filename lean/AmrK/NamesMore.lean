import AmrK.Names
/-! Field rules of the two remaining tools: which components mandoline reads and under which names it
    returns them (`parse_input_fields`, `fields_in_slice`, the grid-level pseudo field), and the field
    list of a converted checkpoint (`chk2plt.__init__`).  Core-only; run by the driver and compared with
    the keys / header names of every real output. -/
namespace Names

/-- mandoline: the request as component indices; `none` inside = the grid-level pseudo field, `none`
    outside = refusal (a name that is neither a field nor `grid_level`).  No request = `density`. -/
def mandolineIdx (names : List String) (req : Option (List String)) : Option (List (Option Nat)) :=
  let r := req.getD ["density"]
  if r.contains "all" then some ((List.range names.length).map some ++ [none])
  else r.mapM fun f => if f == "grid_level" then some none else (names.idxOf? f).map some

/-- the names under which the sliced fields are returned / written (the pseudo field is not a field) -/
def mandolineNames (names : List String) (idx : List (Option Nat)) : List String :=
  idx.filterMap fun o => o.bind (names[·]?)

/-- is the grid-level map produced -/
def mandolineGrid (idx : List (Option Nat)) : Bool := idx.contains none

/-- the fields of a converted checkpoint: state, then (optionally) pressure gradient, then reaction rates -/
def chkFields (species : List String) (doG doR : Bool) : List String :=
  ["x_velocity", "y_velocity", "z_velocity", "density"] ++ species.map (fun s => "Y(" ++ s ++ ")") ++
    ["rhoh", "temp", "RhoRT"] ++ (if doG then ["gradpx", "gradpy", "gradpz"] else []) ++
    (if doR then species.map (fun s => "I_R(" ++ s ++ ")") else [])

theorem filterMap_congr' {α β : Type} (f g : α → Option β) (l : List α) (h : ∀ x ∈ l, f x = g x) :
    l.filterMap f = l.filterMap g := by
  induction l with
  | nil => rfl
  | cons a t ih =>
    simp only [List.filterMap_cons, h a (by simp), ih (fun x hx => h x (by simp [hx]))]

theorem filterMap_range_get (names : List String) :
    ((List.range names.length).map some).filterMap (fun o => o.bind (names[·]?)) = names := by
  rw [List.filterMap_map]
  have h1 : (List.range names.length).filterMap ((fun o => o.bind (names[·]?)) ∘ some) =
      (List.range names.length).filterMap (some ∘ fun i => names[i]?.getD "") := by
    apply filterMap_congr'
    intro x hx
    have hx' : x < names.length := List.mem_range.mp hx
    simp [List.getElem?_eq_getElem hx']
  rw [h1, List.filterMap_eq_map]
  apply List.ext_getElem
  · simp
  · intro i h1 h2
    simp [List.getElem?_eq_getElem h2]

/-- **`all` (anywhere in the request) returns every field of the file under its own name, in file
    order, and the grid-level map** -/
theorem mandoline_all (names r : List String) (h : "all" ∈ r) :
    ∃ idx, mandolineIdx names (some r) = some idx ∧ mandolineNames names idx = names ∧
      mandolineGrid idx = true := by
  refine ⟨(List.range names.length).map some ++ [none], ?_, ?_, ?_⟩
  · simp [mandolineIdx, h]
  · simp only [mandolineNames, List.filterMap_append]
    rw [filterMap_range_get]
    simp
  · simp [mandolineGrid]

/-- the explicit-list branch, one name at a time -/
def mandolineOne (names : List String) (f : String) : Option (Option Nat) :=
  if f == "grid_level" then some none else (names.idxOf? f).map some

theorem mandolineIdx_list (names r : List String) (h : "all" ∉ r) :
    mandolineIdx names (some r) = r.mapM (mandolineOne names) := by
  have : r.contains "all" = false := by simpa using h
  simp only [mandolineIdx, Option.getD_some, this]
  rfl

theorem idxOf?_get (names : List String) (x : String) (i : Nat) (h : names.idxOf? x = some i) :
    names[i]? = some x := by
  obtain ⟨hlt, hget, _⟩ := List.idxOf?_eq_some_iff.mp h
  rw [List.getElem?_eq_getElem hlt]
  simpa using hget

theorem idxOf?_isSome (names : List String) (x : String) (h : x ∈ names) : ∃ i, names.idxOf? x = some i := by
  cases hfi : names.idxOf? x with
  | some j => exact ⟨j, rfl⟩
  | none => exact absurd h (List.idxOf?_eq_none_iff.mp hfi)

/-- **an explicit list of existing names (and `grid_level`) is returned under exactly those names, in
    request order, each read from the component of that name; the grid-level map is produced iff asked** -/
theorem mandoline_list (names r : List String) (hall : "all" ∉ r)
    (hex : ∀ x ∈ r, x = "grid_level" ∨ x ∈ names) :
    ∃ idx, mandolineIdx names (some r) = some idx ∧ idx.length = r.length ∧
      mandolineNames names idx = r.filter (· != "grid_level") ∧
      mandolineGrid idx = r.contains "grid_level" := by
  rw [mandolineIdx_list names r hall]
  clear hall
  induction r with
  | nil => exact ⟨[], rfl, rfl, rfl, rfl⟩
  | cons y ys ih =>
    obtain ⟨idx, h1, h2, h3, h4⟩ := ih (fun x hx => hex x (by simp [hx]))
    by_cases hy : y = "grid_level"
    · refine ⟨none :: idx, ?_, by simp [h2], ?_, ?_⟩
      · simp [List.mapM_cons, mandolineOne, hy, h1]
      · simp [mandolineNames, hy] at h3 ⊢
        exact h3
      · simp [mandolineGrid, hy]
    · have hmem : y ∈ names := (hex y (by simp)).resolve_left hy
      obtain ⟨i, hi⟩ := idxOf?_isSome names y hmem
      refine ⟨some i :: idx, ?_, by simp [h2], ?_, ?_⟩
      · simp [List.mapM_cons, mandolineOne, hy, hi, h1]
      · have hg := idxOf?_get names y i hi
        simp only [mandolineNames, List.filterMap_cons, Option.bind_some, hg] at h3 ⊢
        rw [h3]
        simp [hy]
      · simp only [mandolineGrid] at h4 ⊢
        rw [List.contains_cons, List.contains_cons, h4]
        simp [Ne.symm hy]

/-- **a name that is neither a field nor `grid_level` refuses the whole request** -/
theorem mandoline_unknown (names r : List String) (hall : "all" ∉ r) (x : String) (hx : x ∈ r)
    (hg : x ≠ "grid_level") (hn : x ∉ names) : mandolineIdx names (some r) = none := by
  rw [mandolineIdx_list names r hall]
  clear hall
  induction r with
  | nil => simp at hx
  | cons y ys ih =>
    rcases List.mem_cons.mp hx with e | hin
    · subst e
      have : names.idxOf? x = none := List.idxOf?_eq_none_iff.mpr hn
      simp [List.mapM_cons, mandolineOne, hg, this]
    · have := ih hin
      simp only [List.mapM_cons, this]
      cases mandolineOne names y <;> rfl

/-! ### converted checkpoints -/
def stateNames (species : List String) : List String :=
  ["x_velocity", "y_velocity", "z_velocity", "density"] ++ species.map (fun s => "Y(" ++ s ++ ")") ++ ["rhoh", "temp", "RhoRT"]
def gradNames : List String := ["gradpx", "gradpy", "gradpz"]
def irNames (species : List String) : List String := species.map (fun s => "I_R(" ++ s ++ ")")

theorem chkFields_eq (sp : List String) (doG doR : Bool) :
    chkFields sp doG doR = stateNames sp ++ (if doG then gradNames else []) ++ (if doR then irNames sp else []) := rfl

theorem chkFields_length (sp : List String) (doG doR : Bool) :
    (chkFields sp doG doR).length = 7 + sp.length + (if doG then 3 else 0) + (if doR then sp.length else 0) := by
  cases doG <;> cases doR <;> simp [chkFields] <;> omega

/-- **names and data line up group by group**: with the state components `s`, the pressure-gradient
    components `g` and the reaction-rate components `r` of a box written in the order of
    `Writers.chkRec` (state, then gradient, then rates), every state value sits under a state name, every
    gradient value under a gradient name and every rate under the `I_R` name of its species -/
theorem chk_names_align {α : Type} (sp : List String) (doG doR : Bool) (s g r : List α)
    (hs : s.length = (stateNames sp).length) (hg : g.length = 3) :
    (chkFields sp doG doR).zip (s ++ (if doG then g else []) ++ (if doR then r else [])) =
      (stateNames sp).zip s ++ (if doG then gradNames.zip g else []) ++ (if doR then (irNames sp).zip r else []) := by
  rw [chkFields_eq]
  have hg' : gradNames.length = g.length := by simp [gradNames, hg]
  have h2 : (stateNames sp ++ gradNames).length = (s ++ g).length := by simp [hs, hg']
  cases doG <;> cases doR <;> simp only [Bool.false_eq_true, if_false, if_true, List.append_nil] <;>
    first
    | rfl
    | rw [List.zip_append h2, List.zip_append hs.symm]
    | rw [List.zip_append hs.symm]

end Names
