import AmrK.MeshEq
import AmrK.TasteDataProofs
/-! What `p == q` accepts (the same mesh, whatever else differs) and what it means (C06: inputs whose level count or
    boxes differ are refused). -/
namespace MeshEq

theorem allclose2_refl {α} (f : α → α → Bool) (hf : ∀ a, f a a = true) (l : List α) : allclose2 f l l = true := by
  induction l with
  | nil => rfl
  | cons a as ih => simp [allclose2, hf a, ih]

theorem allclose2_spec {α} (f : α → α → Bool) (l1 l2 : List α) (h : allclose2 f l1 l2 = true) :
    l1.length = l2.length ∧ ∀ (i : Nat) (a b : α), l1[i]? = some a → l2[i]? = some b → f a b = true := by
  induction l1 generalizing l2 with
  | nil =>
    cases l2 with
    | nil => exact ⟨rfl, by intro i a b ha; simp at ha⟩
    | cons b bs => simp [allclose2] at h
  | cons a as ih =>
    cases l2 with
    | nil => simp [allclose2] at h
    | cons b bs =>
      simp only [allclose2, Bool.and_eq_true] at h
      obtain ⟨h1, h2⟩ := ih bs h.2
      refine ⟨by simp [h1], ?_⟩
      intro i x y hx hy
      cases i with
      | zero => simp at hx hy; subst hx hy; exact h.1
      | succ i => exact h2 i x y (by simpa using hx) (by simpa using hy)

theorem closePair_refl (a : Rat × Rat) : closePair a a = true := by
  simp [closePair, TasteData.isclose_refl]

theorem levelEq_refl (a : Lv) : levelEq a a = true := by
  unfold levelEq boundsClose
  simp only [beq_self_eq_true, Bool.true_and]
  exact allclose2_refl _ (fun l => allclose2_refl _ closePair_refl l) _

/-- **same mesh, accepted**: two readers with the same level limit whose levels up to the limit carry the same physical
    bounds and the same index ranges compare equal - whatever their fields, binary files and offsets are -/
theorem eq_same_mesh (lim : Nat) (A B : List Lv) (h : A.take (lim + 1) = B.take (lim + 1)) : eq lim lim A B = true := by
  unfold eq
  rw [h]
  simp only [beq_self_eq_true, Bool.true_and, Bool.and_eq_true]
  exact ⟨allclose2_refl _ levelEq_refl _, allclose2_refl _ (fun a => by simp) _⟩

/-- **what equality means**: the same level limit, the same number of levels looked at, and level by level the same number
    of boxes and exactly the same index ranges -/
theorem eq_sound (limA limB : Nat) (A B : List Lv) (h : eq limA limB A B = true) :
    limA = limB ∧ (A.take (limA + 1)).length = (B.take (limA + 1)).length ∧
    ∀ (lv : Nat) (a b : Lv), lv ≤ limA → A[lv]? = some a → B[lv]? = some b →
      a.bounds.length = b.bounds.length ∧ a.idx = b.idx := by
  unfold eq at h
  simp only [Bool.and_eq_true, beq_iff_eq] at h
  obtain ⟨⟨hl, hb⟩, hi⟩ := h
  obtain ⟨hlen, hb'⟩ := allclose2_spec _ _ _ hb
  obtain ⟨_, hi'⟩ := allclose2_spec _ _ _ hi
  refine ⟨hl, hlen, ?_⟩
  intro lv a b hlv ha hb2
  have ha' : (A.take (limA + 1))[lv]? = some a := by rw [List.getElem?_take]; simp [Nat.lt_succ_of_le hlv, ha]
  have hb3 : (B.take (limA + 1))[lv]? = some b := by rw [List.getElem?_take]; simp [Nat.lt_succ_of_le hlv, hb2]
  have h1 := hb' lv a b ha' hb3
  have h2 := hi' lv a b ha' hb3
  unfold levelEq at h1
  simp only [Bool.and_eq_true, beq_iff_eq] at h1
  exact ⟨h1.1, by simpa using h2⟩

/-- a different level limit, a level with another number of boxes, or one differing index range: refused -/
theorem eq_refuses (limA limB : Nat) (A B : List Lv)
    (h : limA ≠ limB ∨ ∃ (lv : Nat) (a b : Lv), lv ≤ limA ∧ A[lv]? = some a ∧ B[lv]? = some b ∧
      (a.bounds.length ≠ b.bounds.length ∨ a.idx ≠ b.idx)) :
    eq limA limB A B = false := by
  cases he : eq limA limB A B with
  | false => rfl
  | true =>
    obtain ⟨h1, _, h3⟩ := eq_sound limA limB A B he
    rcases h with h | ⟨lv, a, b, hlv, ha, hb, hd⟩
    · exact absurd h1 h
    · obtain ⟨e1, e2⟩ := h3 lv a b hlv ha hb
      rcases hd with hd | hd
      · exact absurd e1 hd
      · exact absurd e2 hd

end MeshEq
