import AmrK.TasteLevelSound
import AmrK.TasteAll
/-! C04 / C20 at the level of the whole plotfile: what a good verdict of `Taste.tastePlt` means. -/
namespace Taste
open Py

theorem go_accepts (dirs : List (String × LevelDir)) (cH cS : Bool) (nf : Nat) (ps : List Bytes)
    (h : (tastePlt.go dirs cH cS nf ps).1 = true) :
    ∀ p ∈ ps, ∃ d c, dirs.lookup (String.fromUTF8! ⟨p.toArray⟩) = some d ∧ d.cellH = some c ∧
      (tasteLevelOpts c nf d.files cH cS).1 = true := by
  induction ps with
  | nil => intro p hp; cases hp
  | cons q rest ih =>
    unfold tastePlt.go at h
    cases hl : dirs.lookup (String.fromUTF8! ⟨q.toArray⟩) with
    | none => rw [hl] at h; simp at h
    | some d =>
      rw [hl] at h
      simp only at h
      cases hc : d.cellH with
      | none => rw [hc] at h; simp at h
      | some c =>
        rw [hc] at h
        simp only at h
        by_cases hr : (tasteLevelOpts c nf d.files cH cS).1 = true
        · rw [if_pos hr] at h
          intro p hp
          rcases List.mem_cons.mp hp with rfl | hp
          · exact ⟨d, c, hl, hc, hr⟩
          · exact ih h p hp
        · rw [if_neg hr] at h
          exact absurd h hr

/-- **What a good verdict means**: the global header parses (under the given level limit), and for
    every selected level the directory the header names exists, holds a level header, and that level
    passes the level validation with the same options -/
theorem tastePlt_accepts (header : Bytes) (limit : Option Int) (dirs : List (String × LevelDir)) (cH cS : Bool)
    (h : (tastePlt header limit dirs cH cS).1 = true) :
    ∃ m, Header.parse header limit = .ok m ∧
      ∀ p ∈ m.cellPaths, ∃ d c, dirs.lookup (String.fromUTF8! ⟨p.toArray⟩) = some d ∧ d.cellH = some c ∧
        (tasteLevelOpts c m.fields.length d.files cH cS).1 = true := by
  unfold tastePlt at h
  cases hp : Header.parse header limit with
  | refused why => rw [hp] at h; simp at h
  | ok m =>
    rw [hp] at h
    exact ⟨m, rfl, go_accepts dirs cH cS m.fields.length m.cellPaths h⟩

/-- **Default validation, whole plotfile**: if it reports good then in every validated level the
    level header parses, every binary file it names is present, and every such file is a chain
    header line · payload of the announced size · canonical next header · … ending exactly at its
    end, along the file's entries in offset order.  Each fault the property lists - a missing level
    directory, level header or binary file; a truncated, extended, shifted file; a wrong shape or
    component count; an entry that cannot be parsed - contradicts one of these conjuncts. -/
theorem good_plotfile_layout (header : Bytes) (limit : Option Int) (dirs : List (String × LevelDir))
    (h : (tastePlt header limit dirs true true).1 = true) :
    ∃ m, Header.parse header limit = .ok m ∧
      ∀ p ∈ m.cellPaths, ∃ d c entries, dirs.lookup (String.fromUTF8! ⟨p.toArray⟩) = some d ∧ d.cellH = some c ∧
        parseCellH c m.fields.length = .ok entries ∧
        ∀ n ∈ dedup (entries.map (·.file)), ∃ raw, d.files.lookup n = some raw ∧
          headersOK raw m.fields.length (sortByOffset (entries.filter (·.file == n))) = true ∧
          (NoDegenerate raw → sortByOffset (entries.filter (·.file == n)) ≠ [] →
            Layout m.fields.length raw (sortByOffset (entries.filter (·.file == n)))) := by
  obtain ⟨m, hm, hall⟩ := tastePlt_accepts header limit dirs true true h
  refine ⟨m, hm, ?_⟩
  intro p hp
  obtain ⟨d, c, hl, hc, hr⟩ := hall p hp
  rw [tasteLevelOpts_default] at hr
  obtain ⟨entries, he, hfiles⟩ := tasteLevel_accepts c m.fields.length d.files hr
  obtain ⟨entries', he', hlay⟩ := accepted_level_layout c m.fields.length d.files hr
  have : entries' = entries := by
    rw [he] at he'; injection he' with h1; exact h1.symm
  subst this
  refine ⟨d, c, entries', hl, hc, he, ?_⟩
  intro n hn
  obtain ⟨raw, hraw, hh, _⟩ := hfiles n hn
  obtain ⟨raw', hraw', hL⟩ := hlay n hn
  have : raw' = raw := by rw [hraw] at hraw'; injection hraw' with h1; exact h1.symm
  subst this
  exact ⟨raw', hraw, hh, hL⟩

/-- a selected level whose directory, level header or a named binary file is missing is never reported good -/
theorem missing_dir_rejected (header : Bytes) (limit : Option Int) (dirs : List (String × LevelDir)) (cH cS : Bool)
    (m : Header.Meta) (hm : Header.parse header limit = .ok m) (p : Bytes) (hp : p ∈ m.cellPaths)
    (hmiss : dirs.lookup (String.fromUTF8! ⟨p.toArray⟩) = none) :
    (tastePlt header limit dirs cH cS).1 = false := by
  cases hv : (tastePlt header limit dirs cH cS).1 with
  | false => rfl
  | true =>
    obtain ⟨m', hm', hall⟩ := tastePlt_accepts header limit dirs cH cS hv
    rw [hm] at hm'; injection hm' with h1; subst h1
    obtain ⟨d, _, hl, _⟩ := hall p hp
    rw [hmiss] at hl; cases hl

/-! ### every listed box of a good plotfile has its FAB header at its recorded position (C20) -/

theorem headersOK_parses (raw : Bytes) (nf : Nat) (es : List Entry) (h : headersOK raw nf es = true) :
    ∀ e ∈ es, 0 ≤ e.offset ∧ ∃ hd, parseFabHeader (lineOf (raw.drop e.offset.toNat)) = some hd ∧
      hd.lo = e.lo ∧ hd.hi = e.hi ∧ hd.nf = (nf : Int) := by
  intro e he
  unfold headersOK at h
  have := List.all_eq_true.mp h e he
  split at this
  · simp at this
  · rename_i hneg
    refine ⟨by omega, ?_⟩
    split at this
    · simp at this
    · rename_i hd hp
      simp only [Bool.and_eq_true, beq_iff_eq] at this
      exact ⟨hd, hp, this.1.1, this.1.2, this.2⟩

theorem mem_dedup_foldl (l acc : List String) (x : String) (h : x ∈ acc ∨ x ∈ l) :
    x ∈ l.foldl (fun acc s => if acc.contains s then acc else acc ++ [s]) acc := by
  induction l generalizing acc with
  | nil => rcases h with h | h
           · exact h
           · cases h
  | cons y l ih =>
    simp only [List.foldl_cons]
    apply ih
    rcases h with h | h
    · left; split
      · exact h
      · exact List.mem_append_left _ h
    · rcases List.mem_cons.mp h with rfl | h
      · left; split
        · rename_i hc; simpa using hc
        · simp
      · right; exact h

theorem mem_dedup (l : List String) (x : String) (h : x ∈ l) : x ∈ dedup l := by
  unfold dedup
  exact mem_dedup_foldl l [] x (Or.inr h)

theorem sortByOffset_mem (l : List Entry) (e : Entry) (h : e ∈ l) : e ∈ sortByOffset l := by
  -- insertion keeps every element
  have hins : ∀ (a : Entry) (acc : List Entry) (x : Entry), (x = a ∨ x ∈ acc) → x ∈ insertSorted a acc := by
    intro a acc
    induction acc with
    | nil => intro x hx; rcases hx with rfl | hx
             · simp [insertSorted]
             · cases hx
    | cons y ys ih =>
      intro x hx
      unfold insertSorted
      split
      · rcases hx with rfl | hx
        · simp
        · exact List.mem_cons_of_mem _ hx
      · rcases hx with rfl | hx
        · exact List.mem_cons_of_mem _ (ih _ (Or.inl rfl))
        · rcases List.mem_cons.mp hx with rfl | hx
          · simp
          · exact List.mem_cons_of_mem _ (ih _ (Or.inr hx))
  have hfold : ∀ (l acc : List Entry) (x : Entry), (x ∈ acc ∨ x ∈ l) →
      x ∈ l.foldl (fun acc e => insertSorted e acc) acc := by
    intro l
    induction l with
    | nil => intro acc x hx; rcases hx with hx | hx
             · exact hx
             · cases hx
    | cons a l ih =>
      intro acc x hx
      simp only [List.foldl_cons]
      apply ih
      rcases hx with hx | hx
      · left; exact hins a acc x (Or.inr hx)
      · rcases List.mem_cons.mp hx with rfl | hx
        · left; exact hins _ acc _ (Or.inl rfl)
        · right; exact hx
  unfold sortByOffset
  exact hfold l [] e (Or.inr h)

/-- **C20, whole plotfile**: if default validation reports good then for every box listed in the
    level header of every validated level the binary file exists and at the recorded byte position
    stands a FAB header line naming exactly that box's index range with the plotfile's component
    count - what the reader starts from (`C20.read_after_accept` then gives the values read) -/
theorem good_plotfile_entries (header : Bytes) (limit : Option Int) (dirs : List (String × LevelDir))
    (h : (tastePlt header limit dirs true true).1 = true) :
    ∃ m, Header.parse header limit = .ok m ∧
      ∀ p ∈ m.cellPaths, ∃ d c entries, dirs.lookup (String.fromUTF8! ⟨p.toArray⟩) = some d ∧ d.cellH = some c ∧
        parseCellH c m.fields.length = .ok entries ∧
        ∀ e ∈ entries, ∃ raw, d.files.lookup e.file = some raw ∧ 0 ≤ e.offset ∧
          ∃ hd, parseFabHeader (lineOf (raw.drop e.offset.toNat)) = some hd ∧
            hd.lo = e.lo ∧ hd.hi = e.hi ∧ hd.nf = (m.fields.length : Int) := by
  obtain ⟨m, hm, hall⟩ := good_plotfile_layout header limit dirs h
  refine ⟨m, hm, ?_⟩
  intro p hp
  obtain ⟨d, c, entries, hl, hc, he, hfiles⟩ := hall p hp
  refine ⟨d, c, entries, hl, hc, he, ?_⟩
  intro e hem
  have hn : e.file ∈ dedup (entries.map (·.file)) := mem_dedup _ _ (List.mem_map.mpr ⟨e, hem, rfl⟩)
  obtain ⟨raw, hraw, hh, _⟩ := hfiles e.file hn
  have hmem : e ∈ sortByOffset (entries.filter (·.file == e.file)) :=
    sortByOffset_mem _ e (List.mem_filter.mpr ⟨hem, by simp⟩)
  obtain ⟨h0, hd, hp', h1, h2, h3⟩ := headersOK_parses raw _ _ hh e hmem
  exact ⟨raw, hraw, h0, hd, hp', h1, h2, h3⟩

end Taste
