import AmrK.CellHRewrite
import AmrK.CellHCodec
/-! What colander's rewrite of a level header does to a rendered level header with min / max tables. -/
namespace CellHRewrite
open Py Taste

theorem joinSep_trailing (vals : List Bytes) : joinSep 44 (vals ++ [[]]) = rowText vals := by
  induction vals with
  | nil => rfl
  | cons v vs ih =>
    cases vs with
    | nil => simp [joinSep, rowText]
    | cons w ws =>
      simp only [List.cons_append] at ih ⊢
      have : joinSep 44 (v :: w :: (ws ++ [[]])) = v ++ 44 :: joinSep 44 (w :: (ws ++ [[]])) := rfl
      rw [this, ih]
      simp [rowText]

/-- **a min / max row is cut down to the kept columns, in the kept order** -/
theorem restrictRow_rowText (vals : List Bytes) (hv : ∀ v ∈ vals, NoByte 44 v) (kept : List Nat)
    (hk : ∀ k ∈ kept, k < vals.length) :
    restrictRow kept (rowText vals) = some (rowText (kept.map (vals.getD · []))) := by
  unfold restrictRow
  have hs : splitOn 44 (rowText vals) = vals ++ [[]] := by
    rw [← joinSep_trailing]
    apply splitOn_joinSep
    · simp
    · intro p hp
      rcases List.mem_append.mp hp with h | h
      · exact hv p h
      · simp only [List.mem_singleton] at h
        subst h
        intro b hb
        cases hb
  simp only [hs, List.dropLast_concat]
  have : kept.all (· < vals.length) = true := List.all_eq_true.mpr (fun k hk' => by simpa using hk k hk')
  simp [this]

theorem restrictRows_spec (kept : List Nat) (rows : List (List Bytes)) (nf : Nat)
    (hr : ∀ r ∈ rows, r.length = nf ∧ ∀ v ∈ r, NoByte 44 v) (hk : ∀ k ∈ kept, k < nf) (rest : List Bytes) :
    restrictRows kept rows.length (rows.map rowText ++ rest) =
      some (rows.map (fun r => rowText (kept.map (r.getD · []))), rest) := by
  induction rows with
  | nil => rfl
  | cons r rs ih =>
    have hr0 := hr r (by simp)
    simp only [List.length_cons, List.map_cons, List.cons_append, restrictRows]
    rw [restrictRow_rowText r hr0.2 kept (fun k hk' => by rw [hr0.1]; exact hk k hk')]
    rw [ih (fun r' hr' => hr r' (by simp [hr']))]
    rfl

def cntLine (n nf : Nat) : Bytes := natBytes n ++ 44 :: natBytes nf

theorem noComma_natBytes (n : Nat) : NoByte 44 (natBytes n) := by
  intro b hb
  have := (natBytes_spec n).1 b hb
  intro e
  subst e
  revert this
  decide

theorem split_cntLine (n nf : Nat) : splitOn 44 (cntLine n nf) = [natBytes n, natBytes nf] := by
  have : cntLine n nf = joinSep 44 [natBytes n, natBytes nf] := rfl
  rw [this]
  apply splitOn_joinSep
  · simp
  · intro p hp
    simp only [List.mem_cons, List.mem_nil_iff, or_false] at hp
    rcases hp with rfl | rfl <;> exact noComma_natBytes _

/-- **one table**: blank line, count line, rows -> blank line, count line with the new field count, restricted rows -/
theorem rewriteTable_spec (kept : List Nat) (rows : List (List Bytes)) (nf : Nat) (blank : Bytes)
    (hr : ∀ r ∈ rows, r.length = nf ∧ ∀ v ∈ r, NoByte 44 v) (hk : ∀ k ∈ kept, k < nf) (rest : List Bytes) :
    rewriteTable kept.length kept (blank :: cntLine rows.length nf :: (rows.map rowText ++ rest)) =
      some (blank :: cntLine rows.length kept.length :: rows.map (fun r => rowText (kept.map (r.getD · []))), rest) := by
  simp only [rewriteTable, split_cntLine, pyInt_natBytes, Int.toNat_natCast]
  rw [restrictRows_spec kept rows nf hr hk rest]
  rfl

theorem containsSub_prefix (pat rest : Bytes) : containsSub pat (pat ++ rest) = true := by
  cases h : pat ++ rest with
  | nil =>
    have : pat = [] := (List.append_eq_nil_iff.mp h).1
    subst this
    simp [containsSub]
  | cons b t =>
    simp only [containsSub, Bool.or_eq_true]
    left
    rw [← h]
    exact List.isPrefixOf_iff_prefix.mpr (List.prefix_append pat rest)

theorem containsSub_fabLine (file : Bytes) (off : Nat) : containsSub fabTag (fabLine file off) = true := by
  have : fabLine file off = fabTag ++ (32 :: (file ++ 32 :: natBytes off)) := by
    simp [fabLine, sepJoin, fabTag, ofString]
  rw [this]
  exact containsSub_prefix _ _

theorem replaceLast_fabLine (file : Bytes) (off off' : Nat) (hf : file ≠ []) (hs : NoSpace file) :
    replaceLast (fabLine file off) off' = fabLine file off' := by
  unfold replaceLast
  rw [splitWs_fabLine file off hf hs]
  simp [joinSep, fabLine, sepJoin]

/-- the copy loop stops at the first `FabOnDisk:` line -/
theorem copyUntilFab_spec (pre : List Bytes) (hpre : ∀ l ∈ pre, containsSub fabTag l = false) (file : Bytes) (off off' : Nat)
    (hf : file ≠ []) (hs : NoSpace file) (rest : List Bytes) :
    copyUntilFab off' (pre ++ fabLine file off :: rest) = some (pre ++ [fabLine file off'], rest) := by
  induction pre with
  | nil => simp [copyUntilFab, containsSub_fabLine, replaceLast_fabLine file off off' hf hs]
  | cons l ls ih =>
    simp only [List.cons_append, copyUntilFab, hpre l (by simp), Bool.false_eq_true, if_false]
    rw [ih (fun x hx => hpre x (by simp [hx]))]
    rfl

theorem rewriteOffs_spec (rows : List (Bytes × Nat)) (hrows : ∀ r ∈ rows, r.1 ≠ [] ∧ NoSpace r.1) (offs : List Nat)
    (hlen : offs.length = rows.length) (rest : List Bytes) :
    rewriteOffs offs (rows.map (fun r => fabLine r.1 r.2) ++ rest) =
      some ((rows.zip offs).map (fun p => fabLine p.1.1 p.2), rest) := by
  induction rows generalizing offs with
  | nil =>
    cases offs with
    | nil => rfl
    | cons o os => simp at hlen
  | cons r rs ih =>
    cases offs with
    | nil => simp at hlen
    | cons o os =>
      have h0 := hrows r (by simp)
      simp only [List.map_cons, List.cons_append, rewriteOffs, List.zip_cons_cons]
      rw [ih (fun x hx => hrows x (by simp [hx])) os (by simpa using hlen)]
      simp [replaceLast_fabLine r.1 r.2 o h0.1 h0.2]

/-- **the whole level header**: for a level header made of two leading lines, the field-count line, any lines without
    `FabOnDisk:` (the index ranges), one `FabOnDisk:` line per box, and the two tables (blank line, count line, one row of
    `nf` comma-terminated values per box), the rewrite with the kept columns `kept` and the new offsets `offs` gives the same
    file with: the field count replaced by the number of kept fields, the index ranges untouched, every box's offset
    replaced by its new one (file names kept), and **every minimum and maximum row cut down to the kept columns in the
    kept order** - for any number of boxes and fields, any selection (reordered, repeated) -/
theorem rewriteLines_spec (l0 l1 lnf : Bytes) (pre : List Bytes) (hpre : ∀ l ∈ pre, containsSub fabTag l = false)
    (r0 : Bytes × Nat) (rows : List (Bytes × Nat)) (hrows : ∀ r ∈ r0 :: rows, r.1 ≠ [] ∧ NoSpace r.1)
    (o0 : Nat) (offs : List Nat) (hlen : offs.length = rows.length)
    (nf : Nat) (mins maxs : List (List Bytes)) (blank1 blank2 : Bytes)
    (hmin : ∀ r ∈ mins, r.length = nf ∧ ∀ v ∈ r, NoByte 44 v) (hmax : ∀ r ∈ maxs, r.length = nf ∧ ∀ v ∈ r, NoByte 44 v)
    (kept : List Nat) (hk : ∀ k ∈ kept, k < nf) (rest : List Bytes) :
    rewriteLines kept (o0 :: offs)
      (l0 :: l1 :: lnf :: (pre ++ fabLine r0.1 r0.2 :: (rows.map (fun r => fabLine r.1 r.2) ++
        (blank1 :: cntLine mins.length nf :: (mins.map rowText ++
          (blank2 :: cntLine maxs.length nf :: (maxs.map rowText ++ rest))))))) =
    some (l0 :: l1 :: natBytes kept.length :: (pre ++ [fabLine r0.1 o0] ++ ((rows.zip offs).map (fun p => fabLine p.1.1 p.2) ++
        ((blank1 :: cntLine mins.length kept.length :: mins.map (fun r => rowText (kept.map (r.getD · [])))) ++
          (blank2 :: cntLine maxs.length kept.length :: maxs.map (fun r => rowText (kept.map (r.getD · []))))))) ) := by
  have h0 := hrows r0 (by simp)
  simp only [rewriteLines]
  rw [copyUntilFab_spec pre hpre r0.1 r0.2 o0 h0.1 h0.2]
  simp only [Option.bind_eq_bind, Option.bind_some]
  rw [rewriteOffs_spec rows (fun r hr => hrows r (by simp [hr])) offs hlen]
  simp only [Option.bind_some]
  rw [rewriteTable_spec kept mins nf blank1 hmin hk]
  simp only [Option.bind_some]
  rw [rewriteTable_spec kept maxs nf blank2 hmax hk]
  simp

/-- a line without the letter `F` (index ranges, counts, parentheses) does not hold the tag -/
theorem containsSub_of_noF (s : Bytes) (h : NoByte 70 s) : containsSub fabTag s = false := by
  induction s with
  | nil => decide +kernel
  | cons b t ih =>
    simp only [containsSub, Bool.or_eq_false_iff]
    refine ⟨?_, ih (fun x hx => h x (by simp [hx]))⟩
    have hb : b ≠ 70 := h b (by simp)
    show fabTag.isPrefixOf (b :: t) = false
    have : fabTag = 70 :: [97, 98, 79, 110, 68, 105, 115, 107, 58] := by decide +kernel
    rw [this]
    simp only [List.isPrefixOf, Bool.and_eq_false_iff, beq_eq_false_iff_ne]
    left
    exact fun e => hb e.symm


/-! ### combine -/

theorem pick_rowText (vals : List Bytes) (hv : ∀ v ∈ vals, NoByte 44 v) (kept : List Nat)
    (hk : ∀ k ∈ kept, k < vals.length) : pick kept (rowText vals) = some (kept.map (vals.getD · [])) := by
  unfold pick
  have hs : splitOn 44 (rowText vals) = vals ++ [[]] := by
    rw [← joinSep_trailing]
    apply splitOn_joinSep
    · simp
    · intro p hp
      rcases List.mem_append.mp hp with h | h
      · exact hv p h
      · simp only [List.mem_singleton] at h
        subst h
        intro b hb
        cases hb
  simp only [hs, List.dropLast_concat]
  have : kept.all (· < vals.length) = true := List.all_eq_true.mpr (fun k hk' => by simpa using hk k hk')
  simp [this]

/-- for a non-empty row the two spellings of a row agree -/
theorem rowText2_eq (vals : List Bytes) (h : vals ≠ []) : rowText2 vals = rowText vals := by
  induction vals with
  | nil => exact absurd rfl h
  | cons v vs ih =>
    cases vs with
    | nil => simp [rowText2, rowText, joinSep]
    | cons w ws =>
      have h1 : joinSep 44 (v :: w :: ws) = v ++ 44 :: joinSep 44 (w :: ws) := rfl
      have := ih (by simp)
      simp only [rowText2] at this ⊢
      rw [h1, List.append_assoc, List.cons_append, this]
      simp [rowText]

theorem combineRows_spec (k1 k2 : List Nat) (nf1 nf2 : Nat) (rows : List (List Bytes × List Bytes))
    (hr : ∀ r ∈ rows, (r.1.length = nf1 ∧ ∀ v ∈ r.1, NoByte 44 v) ∧ (r.2.length = nf2 ∧ ∀ v ∈ r.2, NoByte 44 v))
    (hk1 : ∀ k ∈ k1, k < nf1) (hk2 : ∀ k ∈ k2, k < nf2) (rest1 rest2 : List Bytes) :
    combineRows k1 k2 rows.length (rows.map (fun r => rowText r.1) ++ rest1) (rows.map (fun r => rowText r.2) ++ rest2) =
      some (rows.map (fun r => rowText2 (k1.map (r.1.getD · []) ++ k2.map (r.2.getD · []))), rest1, rest2) := by
  induction rows with
  | nil => rfl
  | cons r rs ih =>
    have hr0 := hr r (by simp)
    simp only [List.length_cons, List.map_cons, List.cons_append, combineRows]
    rw [pick_rowText r.1 hr0.1.2 k1 (fun k hk' => by rw [hr0.1.1]; exact hk1 k hk'),
      pick_rowText r.2 hr0.2.2 k2 (fun k hk' => by rw [hr0.2.1]; exact hk2 k hk')]
    simp only [Option.bind_eq_bind, Option.bind_some]
    rw [ih (fun r' hr' => hr r' (by simp [hr']))]
    rfl

/-- **one table of the combined level header**: every row is the picked columns of the first input's row followed by
    the picked columns of the second input's row for the same box -/
theorem combineTable_spec (nf : Nat) (k1 k2 : List Nat) (nf1 nf2 : Nat) (rows : List (List Bytes × List Bytes))
    (blank b2 c2 : Bytes)
    (hr : ∀ r ∈ rows, (r.1.length = nf1 ∧ ∀ v ∈ r.1, NoByte 44 v) ∧ (r.2.length = nf2 ∧ ∀ v ∈ r.2, NoByte 44 v))
    (hk1 : ∀ k ∈ k1, k < nf1) (hk2 : ∀ k ∈ k2, k < nf2) (rest1 rest2 : List Bytes) :
    combineTable nf k1 k2 (blank :: cntLine rows.length nf1 :: (rows.map (fun r => rowText r.1) ++ rest1))
        (b2 :: c2 :: (rows.map (fun r => rowText r.2) ++ rest2)) =
      some (blank :: cntLine rows.length nf :: rows.map (fun r => rowText2 (k1.map (r.1.getD · []) ++ k2.map (r.2.getD · []))),
        rest1, rest2) := by
  simp only [combineTable, split_cntLine, pyInt_natBytes, Int.toNat_natCast]
  rw [combineRows_spec k1 k2 nf1 nf2 rows hr hk1 hk2 rest1 rest2]
  rfl


/-- **the whole combined level header**: the first input's level header (two leading lines, field count, lines without
    `FabOnDisk:`, one `FabOnDisk:` line per box, two tables) read next to a second level header with as many lines ahead of
    its tables: the output keeps the first input's index ranges and file names, carries the new field count and offsets, and
    **every minimum / maximum row is assembled from the rows of the same box in the two inputs** - the picked columns of the
    first followed by the picked columns of the second -/
theorem combineLines_spec (nf : Nat) (l0 l1 lnf : Bytes) (pre : List Bytes) (hpre : ∀ l ∈ pre, containsSub fabTag l = false)
    (r0 : Bytes × Nat) (rows : List (Bytes × Nat)) (hrows : ∀ r ∈ r0 :: rows, r.1 ≠ [] ∧ NoSpace r.1)
    (o0 : Nat) (offs : List Nat) (hlen : offs.length = rows.length)
    (nf1 nf2 : Nat) (mins maxs : List (List Bytes × List Bytes)) (blank1 blank2 : Bytes)
    (head2 : List Bytes) (hhead2 : head2.length = 3 + pre.length + 1 + rows.length) (b21 c21 b22 c22 : Bytes)
    (hmin : ∀ r ∈ mins, (r.1.length = nf1 ∧ ∀ v ∈ r.1, NoByte 44 v) ∧ (r.2.length = nf2 ∧ ∀ v ∈ r.2, NoByte 44 v))
    (hmax : ∀ r ∈ maxs, (r.1.length = nf1 ∧ ∀ v ∈ r.1, NoByte 44 v) ∧ (r.2.length = nf2 ∧ ∀ v ∈ r.2, NoByte 44 v))
    (k1 k2 : List Nat) (hk1 : ∀ k ∈ k1, k < nf1) (hk2 : ∀ k ∈ k2, k < nf2) (rest1 rest2 : List Bytes) :
    combineLines nf k1 k2 (o0 :: offs)
      (l0 :: l1 :: lnf :: (pre ++ fabLine r0.1 r0.2 :: (rows.map (fun r => fabLine r.1 r.2) ++
        (blank1 :: cntLine mins.length nf1 :: (mins.map (fun r => rowText r.1) ++
          (blank2 :: cntLine maxs.length nf1 :: (maxs.map (fun r => rowText r.1) ++ rest1)))))))
      (head2 ++ (b21 :: c21 :: (mins.map (fun r => rowText r.2) ++ (b22 :: c22 :: (maxs.map (fun r => rowText r.2) ++ rest2))))) =
    some (l0 :: l1 :: natBytes nf :: (pre ++ [fabLine r0.1 o0] ++ ((rows.zip offs).map (fun p => fabLine p.1.1 p.2) ++
        ((blank1 :: cntLine mins.length nf :: mins.map (fun r => rowText2 (k1.map (r.1.getD · []) ++ k2.map (r.2.getD · [])))) ++
          (blank2 :: cntLine maxs.length nf :: maxs.map (fun r => rowText2 (k1.map (r.1.getD · []) ++ k2.map (r.2.getD · []))))))) ) := by
  have h0 := hrows r0 (by simp)
  simp only [combineLines]
  rw [copyUntilFab_spec pre hpre r0.1 r0.2 o0 h0.1 h0.2]
  simp only [Option.bind_eq_bind, Option.bind_some]
  rw [rewriteOffs_spec rows (fun r hr => hrows r (by simp [hr])) offs hlen]
  simp only [Option.bind_some]
  -- the second header has been advanced past its own leading part
  have hdrop : ∀ (tail1 : List Bytes) (tail2 : List Bytes),
      (head2 ++ tail2).drop ((l0 :: l1 :: lnf :: (pre ++ fabLine r0.1 r0.2 :: (rows.map (fun r => fabLine r.1 r.2) ++ tail1))).length
        - tail1.length) = tail2 := by
    intro tail1 tail2
    have : (l0 :: l1 :: lnf :: (pre ++ fabLine r0.1 r0.2 :: (rows.map (fun r => fabLine r.1 r.2) ++ tail1))).length - tail1.length
        = head2.length := by
      simp only [List.length_cons, List.length_append, List.length_map]
      omega
    rw [this, List.drop_left]
  rw [hdrop]
  rw [combineTable_spec nf k1 k2 nf1 nf2 mins blank1 b21 c21 hmin hk1 hk2]
  simp only [Option.bind_some]
  rw [combineTable_spec nf k1 k2 nf1 nf2 maxs blank2 b22 c22 hmax hk1 hk2]
  simp

end CellHRewrite
