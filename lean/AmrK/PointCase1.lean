import AmrK.Point
/-! C19: per-axis arithmetic of the single-box case of `LevelDataSelector.__call__`: at the centre of a
    cell of box `B` the inner match holds for `B`, and for a cell at least one cell away from the
    faces of `B` the outer match fails for every box of the level that is disjoint from `B` along
    this axis. -/
namespace Point

/-- physical bounds of the index range `lo … hi` along one axis -/
def pLo (g dx : Rat) (lo : Int) : Rat := g + (lo : Rat) * dx
def pHi (g dx : Rat) (hi : Int) : Rat := g + ((hi : Rat) + 1) * dx
def centre (g dx : Rat) (i : Int) : Rat := g + ((i : Rat) + 1/2) * dx

/-- **inner match**: the centre of any cell of the box lies between the centres of its boundary cells -/
theorem inner_match (g dx : Rat) (lo hi i : Int) (hdx : 0 < dx) (h1 : lo ≤ i) (h2 : i ≤ hi) :
    pLo g dx lo + dx / 2 ≤ centre g dx i ∧ centre g dx i ≤ pHi g dx hi - dx / 2 := by
  unfold pLo pHi centre
  have a : (lo : Rat) ≤ (i : Rat) := by exact_mod_cast h1
  have b : (i : Rat) ≤ (hi : Rat) := by exact_mod_cast h2
  constructor <;> nlinarith

/-- **outer match fails below**: a box ending before `B` starts does not reach a cell of `B` that is
    at least one cell away from `B`'s low face -/
theorem outer_miss_below (g dx : Rat) (lo i hi' : Int) (hdx : 0 < dx) (hdis : hi' < lo) (h1 : lo + 1 ≤ i) :
    ¬ (centre g dx i ≤ pHi g dx hi' + dx / 2) := by
  unfold pHi centre
  have a : (hi' : Rat) + 1 ≤ (lo : Rat) := by exact_mod_cast hdis
  have b : (lo : Rat) + 1 ≤ (i : Rat) := by exact_mod_cast h1
  intro h
  nlinarith

/-- **outer match fails above** -/
theorem outer_miss_above (g dx : Rat) (hi i lo' : Int) (hdx : 0 < dx) (hdis : hi < lo') (h1 : i + 1 ≤ hi) :
    ¬ (pLo g dx lo' - dx / 2 ≤ centre g dx i) := by
  unfold pLo centre
  have a : (hi : Rat) + 1 ≤ (lo' : Rat) := by exact_mod_cast hdis
  have b : (i : Rat) + 1 ≤ (hi : Rat) := by exact_mod_cast h1
  intro h
  nlinarith

/-- a finer box adjacent to the coarse cell (not covering it) does not reach its centre either:
    the fine box lies beyond the coarse cell's face, at distance `dx/2 = dx_fine` from the centre -/
theorem finer_outer_miss (g dx : Rat) (i lo' : Int) (hdx : 0 < dx) (hdis : 2 * i + 2 ≤ lo') :
    ¬ (pLo g (dx / 2) lo' - (dx / 2) / 2 ≤ centre g dx i) := by
  unfold pLo centre
  have a : 2 * (i : Rat) + 2 ≤ (lo' : Rat) := by exact_mod_cast hdis
  intro h
  nlinarith

end Point
