import AmrK.CanonDefs
/-! Prototype: byte-level model of taste's default validation of one level. -/
namespace Taste
open Py

def NL : UInt8 := 10

/-- `f.readline()` from a byte list -/
def lineOf : Bytes → Bytes
  | [] => []
  | b :: rest => if b = NL then [b] else b :: lineOf rest

structure Hdr where
  lo : List Int
  hi : List Int
  nf : Int
deriving Repr, BEq

def intList (s : Bytes) : Option (List Int) := (splitOn 44 s).mapM pyInt

/-- indexes_and_shape_from_header / shape_from_header on the decoded line -/
def parseFabHeader (h : Bytes) : Option Hdr :=
  if !isAscii h then none else
  let toks := splitWs h
  if toks.length < 4 then none else
  match toks.drop (toks.length - 4) with
  | [start, stop, _, nfs] => do
    let nf ← pyInt nfs
    let lo ← intList (remove 41 ((splitOn 40 start).getLast?.getD []))
    let hi ← intList (remove 41 (remove 40 stop))
    -- numpy broadcasting of `stop - start + 1`
    if lo.length = hi.length || lo.length = 1 || hi.length = 1 then pure ⟨lo, hi, nf⟩ else none
  | _ => none

def bcast (lo hi : List Int) : List (Int × Int) :=
  if lo.length = hi.length then lo.zip hi
  else if lo.length = 1 then hi.map fun h => (lo.headD 0, h)
  else lo.map fun l => (l, hi.headD 0)

def Hdr.nbytes (h : Hdr) : Int := ((bcast h.lo h.hi).foldl (fun acc p => acc * (p.2 - p.1 + 1)) 1) * h.nf * 8

/-- utils.header_from_indices (byte-level printer, see CanonDefs) -/
def canonHeader (lo hi : List Int) (nf : Nat) : Bytes := canonB lo hi nf

structure Entry where
  lo : List Int
  hi : List Int
  file : String
  offset : Int
deriving Repr

inductive LevelHdr where
  | ok (entries : List Entry)
  | bad (why : String)
deriving Repr

/-- `n` box lines starting at line `i`: `((lo) (hi) (type))` -/
def parseBoxes (line : Nat → Bytes) : Nat → Nat → Option (List (List Int × List Int))
  | _, 0 => some []
  | i, n + 1 =>
    match splitWs (line i) with
    | [a, b, _] => do
      let lo ← intList (remove 41 (remove 40 a))
      let hi ← intList (remove 41 (remove 40 b))
      let rest ← parseBoxes line (i + 1) n
      pure ((lo, hi) :: rest)
    | _ => none

/-- one `FabOnDisk: <file> <offset>` line per box, starting at line `i` -/
def parseFabs (line : Nat → Bytes) : Nat → List (List Int × List Int) → Option (List Entry)
  | _, [] => some []
  | i, (lo, hi) :: bs =>
    match splitWs (line i) with
    | [_, f, o] => do
      let ov ← pyInt o
      let rest ← parseFabs line (i + 1) bs
      pure (⟨lo, hi, String.fromUTF8! ⟨f.toArray⟩, ov⟩ :: rest)
    | _ => none

/-- read_cell_headers (maxmins = False) on the lines of a Cell_H file -/
def parseCellH (text : Bytes) (nfields : Nat) : LevelHdr :=
  let lines := splitOn NL text
  let line (i : Nat) : Bytes := lines.getD i []
  match pyInt (line 2) with
  | none => .bad "nfields"
  | some nfv =>
    if nfv ≠ nfields then .bad "nfields-assert" else
    match (splitWs (line 4)).head? with
    | none => .bad "ncells-empty"
    | some t =>
      match pyInt (remove 40 t) with
      | none => .bad "ncells"
      | some nc =>
        let n := nc.toNat
        match parseBoxes line 5 n with
        | none => .bad "box"
        | some boxes =>
          match pyInt (line (6 + n)) with
          | none => .bad "ncells2"
          | some n2 =>
            if n2 ≠ nc then .bad "ncells2-assert" else
            match parseFabs line (7 + n) boxes with
            | none => .bad "fab"
            | some es => .ok es

/-- mp_fun_headers for one file: entries sorted by offset -/
def headersOK (raw : Bytes) (nfields : Nat) (es : List Entry) : Bool :=
  es.all fun e =>
    if e.offset < 0 then false else
    match parseFabHeader (lineOf (raw.drop e.offset.toNat)) with
    | none => false
    | some h => h.lo == e.lo && h.hi == e.hi && h.nf == nfields

/-- mp_fun_shape for one file -/
def shapeOK (raw : Bytes) (nfields : Nat) (es : List Entry) : Bool :=
  let rec go (h : Bytes) (pos : Int) : List Entry → Bool
    | [] => true      -- not reached: the caller passes ≥ 1 entry
    | [_] =>
      match parseFabHeader h with
      | none => false
      | some hd => pos + hd.nbytes ≥ 0 && pos + hd.nbytes == raw.length
    | _ :: e2 :: rest =>
      match parseFabHeader h with
      | none => false
      | some hd =>
        let pos' := pos + hd.nbytes
        if pos' < 0 then false else
        let h' := lineOf (raw.drop pos'.toNat)
        if h' == canonHeader e2.lo e2.hi nfields then go h' (pos' + h'.length) (e2 :: rest) else false
  let h := lineOf raw
  go h h.length es

end Taste

namespace Taste
open Py

def insertSorted (e : Entry) : List Entry → List Entry
  | [] => [e]
  | x :: xs => if e.offset < x.offset then e :: x :: xs else x :: insertSorted e xs

def sortByOffset (es : List Entry) : List Entry := es.foldl (fun acc e => insertSorted e acc) []

def dedup (l : List String) : List String := l.foldl (fun acc s => if acc.contains s then acc else acc ++ [s]) []

/-- default validation of one level: structure, binary headers, binary shape -/
def tasteLevel (cellH : Bytes) (nfields : Nat) (files : List (String × Bytes)) : Bool × String :=
  match parseCellH cellH nfields with
  | .bad why => (false, "cellh:" ++ why)
  | .ok entries =>
    let names := dedup (entries.map (·.file))
    if names.any (fun n => (files.lookup n).isNone) then (false, "missing-file") else
    let perFile := names.map fun n => (n, sortByOffset (entries.filter (·.file == n)), (files.lookup n).getD [])
    if !(perFile.all fun (_, es, raw) => headersOK raw nfields es) then (false, "headers") else
    if !(perFile.all fun (_, es, raw) => shapeOK raw nfields es) then (false, "shape") else
    (true, "good")

end Taste
