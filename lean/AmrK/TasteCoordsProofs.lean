import AmrK.TasteCoords
import AmrK.CoordsProofs
import Mathlib.Tactic.Ring
import Mathlib.Tactic.Linarith
import Mathlib.Tactic.Positivity
namespace TasteCoords

theorem rabs_eq (x : Rat) : rabs x = |x| := by
  unfold rabs
  split
  · rw [abs_of_neg (by assumption)]
  · rw [abs_of_nonneg (le_of_not_gt (by assumption))]

def tol (b : Rat) : Rat := (1 : Rat) / 100000000 + (1 : Rat) / 100000 * |b|

theorem isclose_iff (a b : Rat) : isclose a b = true ↔ |a - b| ≤ tol b := by
  simp [isclose, rabs_eq, tol]

theorem gridAt_inrange (lo hi dx : Rat) (n : Nat) (k : Nat) (hk : k < n) (h : hi = lo + (n : Rat) * dx) :
    gridAt lo hi dx n (k : Int) = some (lo + ((k : Rat) + 1 / 2) * dx) := by
  subst h
  have h1 : ¬ ((k : Int) < 0) := by omega
  have h2 : (0 : Int) ≤ (k : Int) ∧ (k : Int) < (n : Int) := ⟨by omega, by exact_mod_cast hk⟩
  simp only [gridAt, h1, if_false, h2, and_self, if_true, Int.toNat_natCast]
  rw [Coords.linspace_centre lo dx n k (by omega) hk]

/-- **completeness**: a box whose physical bounds are exactly the faces of its index range is accepted -/
theorem axisOK_exact (lo hi dx : Rat) (n : Nat) (i0 i1 : Nat) (h0 : i0 < n) (h1 : i1 < n) (h : hi = lo + (n : Rat) * dx) :
    axisOK lo hi dx n i0 i1 (lo + (i0 : Rat) * dx) (lo + ((i1 : Rat) + 1) * dx) = some true := by
  simp only [axisOK, gridAt_inrange lo hi dx n i0 h0 h, gridAt_inrange lo hi dx n i1 h1 h, Option.bind_eq_bind,
    Option.bind_some, Option.pure_def, Option.some.injEq, Bool.and_eq_true, isclose_iff]
  constructor
  · have : lo + ((i0 : Rat) + 1 / 2) * dx - dx / 2 - (lo + (i0 : Rat) * dx) = 0 := by ring
    rw [this, abs_zero]; unfold tol; positivity
  · have : lo + ((i1 : Rat) + 1 / 2) * dx + dx / 2 - (lo + ((i1 : Rat) + 1) * dx) = 0 := by ring
    rw [this, abs_zero]; unfold tol; positivity

/-- **soundness**: an accepted box has physical bounds within numpy's tolerance band of the faces of its index range -/
theorem axisOK_sound (lo hi dx : Rat) (n : Nat) (i0 i1 : Nat) (h0 : i0 < n) (h1 : i1 < n) (h : hi = lo + (n : Rat) * dx)
    (blo bhi : Rat) (hok : axisOK lo hi dx n i0 i1 blo bhi = some true) :
    |lo + (i0 : Rat) * dx - blo| ≤ tol blo ∧ |lo + ((i1 : Rat) + 1) * dx - bhi| ≤ tol bhi := by
  simp only [axisOK, gridAt_inrange lo hi dx n i0 h0 h, gridAt_inrange lo hi dx n i1 h1 h, Option.bind_eq_bind,
    Option.bind_some, Option.pure_def, Option.some.injEq, Bool.and_eq_true, isclose_iff] at hok
  obtain ⟨a, b⟩ := hok
  have e0 : lo + ((i0 : Rat) + 1 / 2) * dx - dx / 2 = lo + (i0 : Rat) * dx := by ring
  have e1 : lo + ((i1 : Rat) + 1 / 2) * dx + dx / 2 = lo + ((i1 : Rat) + 1) * dx := by ring
  rw [e0] at a; rw [e1] at b
  exact ⟨a, b⟩

/-- **a bound that is off by a whole number of cells is rejected** as soon as a cell is wider than the tolerance band
    (`dx > atol + rtol·|bound|`, i.e. for every mesh that is not absurdly fine for its distance from the origin) -/
theorem shifted_lo_rejected (lo hi dx : Rat) (n : Nat) (i0 i1 : Nat) (h0 : i0 < n) (h1 : i1 < n) (h : hi = lo + (n : Rat) * dx)
    (k : Int) (hk : k ≠ 0) (bhi : Rat) (hdx : tol (lo + ((i0 : Rat) + k) * dx) < dx) :
    axisOK lo hi dx n i0 i1 (lo + ((i0 : Rat) + k) * dx) bhi ≠ some true := by
  intro hok
  have := (axisOK_sound lo hi dx n i0 i1 h0 h1 h _ bhi hok).1
  have e : lo + (i0 : Rat) * dx - (lo + ((i0 : Rat) + k) * dx) = -((k : Rat) * dx) := by ring
  rw [e, abs_neg, abs_mul] at this
  have hdxpos : 0 < dx := lt_of_le_of_lt (by unfold tol; positivity) hdx
  have hk1 : (1 : Rat) ≤ |(k : Rat)| := by
    have : (1 : Int) ≤ |k| := Int.one_le_abs hk
    exact_mod_cast this
  have : dx ≤ |(k : Rat)| * |dx| := by
    rw [abs_of_pos hdxpos]
    nlinarith
  linarith

end TasteCoords
