import AmrK.CodecSplit
/-! Probe: default output paths built by string concatenation (chef `<plt>_ck`, marinate `<plt>.pkl`)
    never land inside the input once the input path is normalised; the pinned concatenation does
    whenever the input path ends with a slash (C13). -/
namespace Paths
open Py

/-- path components: pieces between slashes, empty pieces dropped -/
def comps (p : Bytes) : List Bytes := (splitOn 47 p).filter (· ≠ [])

/-- `out` lies strictly inside directory `inp` -/
def Inside (out inp : Bytes) : Prop := ∃ extra, extra ≠ [] ∧ comps out = comps inp ++ extra

/-- a relative or absolute path without `.`/`..`, written from its components: what
    `os.path.normpath` returns for such a path -/
def render (abs : Bool) (cs : List Bytes) : Bytes := (if abs then [47] else []) ++ joinSep 47 cs

def GoodComps (cs : List Bytes) : Prop := cs ≠ [] ∧ ∀ c ∈ cs, c ≠ [] ∧ NoByte 47 c

theorem joinSep_snoc_suffix (cs : List Bytes) (last suffix : Bytes) :
    joinSep 47 (cs ++ [last ++ suffix]) = joinSep 47 (cs ++ [last]) ++ suffix := by
  induction cs with
  | nil => simp [joinSep]
  | cons c cs ih =>
    cases cs with
    | nil => simp [joinSep]
    | cons d rest =>
      simp only [List.cons_append, joinSep] at ih ⊢
      rw [ih]; simp [List.append_assoc]

theorem filter_ne_nil_good (cs : List Bytes) (h : ∀ c ∈ cs, c ≠ []) : cs.filter (· ≠ []) = cs := by
  apply List.filter_eq_self.mpr
  intro c hc; simpa using h c hc

theorem comps_render (abs : Bool) (cs : List Bytes) (h : GoodComps cs) : comps (render abs cs) = cs := by
  obtain ⟨hne, hc⟩ := h
  unfold comps render
  cases abs with
  | false =>
    simp only [Bool.false_eq_true, if_false, List.nil_append]
    rw [splitOn_joinSep 47 cs hne (fun c hcm => (hc c hcm).2)]
    exact filter_ne_nil_good cs (fun c hcm => (hc c hcm).1)
  | true =>
    simp only [if_true]
    -- a leading slash only adds an empty first piece
    have : [47] ++ joinSep 47 cs = joinSep 47 ([] :: cs) := by
      cases cs with
      | nil => exact absurd rfl hne
      | cons c rest => simp [joinSep]
    rw [this, splitOn_joinSep 47 ([] :: cs) (by simp) (by
      intro c hcm
      rcases List.mem_cons.mp hcm with rfl | hcm
      · intro b hb; cases hb
      · exact (hc c hcm).2)]
    simp only [List.filter_cons, ne_eq, not_true_eq_false, decide_false, Bool.false_eq_true, if_false]
    exact filter_ne_nil_good cs (fun c hcm => (hc c hcm).1)

/-- **repaired default (chef, marinate).**  `normpath(p) + suffix` is never inside `p`. -/
theorem concat_not_inside (abs : Bool) (cs : List Bytes) (last suffix : Bytes)
    (h : GoodComps (cs ++ [last])) (hs : suffix ≠ []) (hsuf : NoByte 47 suffix) :
    ¬ Inside (render abs (cs ++ [last]) ++ suffix) (render abs (cs ++ [last])) := by
  have hgood' : GoodComps (cs ++ [last ++ suffix]) := by
    refine ⟨by simp, ?_⟩
    intro c hc
    rcases List.mem_append.mp hc with hc | hc
    · exact h.2 c (List.mem_append.mpr (Or.inl hc))
    · have : c = last ++ suffix := by simpa using hc
      subst this
      have hl := h.2 last (by simp)
      refine ⟨by simp [hs], ?_⟩
      intro b hb
      rcases List.mem_append.mp hb with hb | hb
      · exact hl.2 b hb
      · exact hsuf b hb
  have hout : render abs (cs ++ [last]) ++ suffix = render abs (cs ++ [last ++ suffix]) := by
    unfold render
    rw [joinSep_snoc_suffix, List.append_assoc]
  rintro ⟨extra, hne, heq⟩
  rw [hout, comps_render abs _ hgood', comps_render abs _ h] at heq
  have hlen := congrArg List.length heq
  simp only [List.length_append, List.length_singleton] at hlen
  have : extra.length = 0 := by omega
  exact hne (List.length_eq_zero_iff.mp this)

/-- **pinned default.**  `p + suffix` for an input written with a trailing slash is inside `p`. -/
theorem concat_inside_trailing_slash (abs : Bool) (cs : List Bytes) (suffix : Bytes)
    (h : GoodComps cs) (hs : suffix ≠ []) (hsuf : NoByte 47 suffix) :
    Inside (render abs cs ++ [47] ++ suffix) (render abs cs ++ [47]) := by
  have hgood' : GoodComps (cs ++ [suffix]) := by
    refine ⟨by simp, ?_⟩
    intro c hc
    rcases List.mem_append.mp hc with hc | hc
    · exact h.2 c hc
    · have : c = suffix := by simpa using hc
      subst this; exact ⟨hs, hsuf⟩
  have hjoin : ∀ (cs : List Bytes) (x : Bytes), cs ≠ [] → joinSep 47 (cs ++ [x]) = joinSep 47 cs ++ 47 :: x := by
    intro cs x hne
    induction cs with
    | nil => exact absurd rfl hne
    | cons c cs ih =>
      cases cs with
      | nil => simp [joinSep]
      | cons d rest =>
        simp only [List.cons_append, joinSep] at ih ⊢
        rw [ih (by simp)]; simp [List.append_assoc]
  have hout : render abs cs ++ [47] ++ suffix = render abs (cs ++ [suffix]) := by
    unfold render; rw [hjoin cs suffix h.1]; simp [List.append_assoc]
  have hin : comps (render abs cs ++ [47]) = cs := by
    have : render abs cs ++ [47] = render abs (cs ++ [[]]) := by
      unfold render; rw [hjoin cs [] h.1]; simp [List.append_assoc]
    unfold comps
    rw [this]
    unfold render
    cases abs with
    | false =>
      simp only [Bool.false_eq_true, if_false, List.nil_append]
      rw [splitOn_joinSep 47 _ (by simp) (by
        intro c hc
        rcases List.mem_append.mp hc with hc | hc
        · exact (h.2 c hc).2
        · have : c = [] := by simpa using hc
          subst this; intro b hb; cases hb)]
      rw [List.filter_append, filter_ne_nil_good cs (fun c hc => (h.2 c hc).1)]
      simp
    | true =>
      simp only [if_true]
      have e : [47] ++ joinSep 47 (cs ++ [[]]) = joinSep 47 ([] :: (cs ++ [[]])) := by
        cases cs with
        | nil => exact absurd rfl h.1
        | cons c rest => simp [joinSep]
      rw [e, splitOn_joinSep 47 _ (by simp) (by
        intro c hc
        rcases List.mem_cons.mp hc with rfl | hc
        · intro b hb; cases hb
        · rcases List.mem_append.mp hc with hc | hc
          · exact (h.2 c hc).2
          · have : c = [] := by simpa using hc
            subst this; intro b hb; cases hb)]
      simp only [List.filter_cons, ne_eq, not_true_eq_false, decide_false, Bool.false_eq_true, if_false]
      rw [List.filter_append, filter_ne_nil_good cs (fun c hc => (h.2 c hc).1)]
      simp
  refine ⟨[suffix], by simp, ?_⟩
  rw [hout, comps_render abs _ hgood', hin]

end Paths
