import Mathlib.Tactic.FieldSimp
import Mathlib.Tactic.Ring
import Mathlib.Tactic.Linarith
import Mathlib.Algebra.Order.Field.Rat
import AmrK.PointModel
/-! Probe: point-to-index conversion of `LevelDataSelector.__call__` (C19). -/
namespace Point

/-- the centre of cell `i` (global index) maps to `i`, for any origin and cell size -/
theorem pointIdxR_centre (g dx : Rat) (i : Int) (hdx : dx ≠ 0) :
    pointIdxR g dx (g + ((i : Rat) + 1/2) * dx) = i := by
  unfold pointIdxR; field_simp; ring

/-- hence the local index inside a box starting at `lo` is `i - lo` -/
theorem pointLocal_centre (g dx : Rat) (i lo : Int) (hdx : dx ≠ 0) :
    pointIdxR g dx (g + ((i : Rat) + 1/2) * dx) - lo = ((i - lo : Int) : Rat) := by
  rw [pointIdxR_centre g dx i hdx]; push_cast; ring

/-- the pinned formula is off by `g/dx` cells: right exactly when the origin is 0 -/
theorem pointIdxP_centre (g dx : Rat) (i : Int) (hdx : dx ≠ 0) :
    pointIdxP dx (g + ((i : Rat) + 1/2) * dx) = i + g / dx := by
  unfold pointIdxP; field_simp; ring

theorem pointIdxP_wrong (g dx : Rat) (i : Int) (hdx : dx ≠ 0) (hg : g ≠ 0) :
    pointIdxP dx (g + ((i : Rat) + 1/2) * dx) ≠ i := by
  rw [pointIdxP_centre g dx i hdx]
  intro h
  have : g / dx = 0 := by linarith
  rcases div_eq_zero_iff.mp this with h | h
  · exact hg h
  · exact hdx h

end Point
