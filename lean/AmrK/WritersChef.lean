import AmrK.WritersOrd
/-! Prototype + theorem: (repaired) chef at record level. -/
namespace Writers

/-- the record chef writes for box `i`: kept components, then the recipe's components -/
def chefRec (boxes : List InBox) (nfIn : Nat) (kept : List Nat) (newComps : Nat → List Int) (i : Nat) :
    Option OutRec :=
  boxes[i]?.map fun b =>
    let nfOut := kept.length + (newComps i).length
    { box := i, comps := kept.filterMap (b.comps[·]?) ++ newComps i,
      size := b.hdrLen - digits nfIn + digits nfOut + b.ncells * 8 * nfOut }

/-- chef, one level: every input file is rewritten in *disk* order (sequential scan) -/
def chef (boxes : List InBox) (nfIn : Nat) (kept : List Nat) (newComps : Nat → List Int) : List OutBox :=
  assemble boxes ((unique (boxes.map (·.file))).map
    (ordEntry boxes (offsetOrder boxes) (chefRec boxes nfIn kept newComps)))

/-- **C11 core (layout part).**  Whatever the distribution and order of the boxes in the input
    files, entry `i` of chef's level header points at a record that is box `i` and holds the kept
    components of the input box followed by the recipe's components for that box. -/
theorem chef_data (boxes : List InBox) (nfIn : Nat) (kept : List Nat) (newComps : Nat → List Int)
    (hsize : ∀ k r, chefRec boxes nfIn kept newComps k = some r → 0 < r.size)
    (i : Nat) (b : InBox) (hb : boxes[i]? = some b) :
    ∃ ob, (chef boxes nfIn kept newComps)[i]? = some ob ∧ ob.file = b.file ∧
      ob.found = some (i, kept.filterMap (b.comps[·]?) ++ newComps i) := by
  have hrec : ∀ k, k < boxes.length → ∃ r, chefRec boxes nfIn kept newComps k = some r ∧ r.box = k := by
    intro k hk
    have h1 : boxes[k]? = some boxes[k] := List.getElem?_eq_getElem hk
    refine ⟨{ box := k, comps := kept.filterMap (boxes[k].comps[·]?) ++ newComps k,
              size := boxes[k].hdrLen - digits nfIn + digits (kept.length + (newComps k).length)
                + boxes[k].ncells * 8 * (kept.length + (newComps k).length) }, by simp [chefRec, h1], rfl⟩
  obtain ⟨ob, r, h1, h2, h3, h4⟩ :=
    assemble_data_ord boxes (offsetOrder boxes) (goodOrder_offset boxes) _ hrec hsize i b hb
  refine ⟨ob, h1, h2, ?_⟩
  rw [h4]
  simp [chefRec, hb] at h3
  rw [← h3]

end Writers
