import AmrK.Pestle
/-! `volume_integral` as called: the field and the volume-fraction component are looked up by name in a
    multi-component plotfile, the levels are cut at the limit, and the workers weight every value by the
    volume fraction of its own cell (`np.sum(data[mask] * volfrac[mask])` below the finest selected level,
    `np.sum(data * volfrac)` on it).  Core-only (run by the driver). -/
namespace Pestle

/-- a box with all its components -/
structure MBox where
  lo : List Nat
  hi : List Nat
  comps : List (List Rat)      -- component-major, each in Fortran order

structure MLevel where
  grid : List Nat
  dx : List Rat
  boxes : List MBox

/-- the worker's weighted masked sum -/
def sumMasked2 (data vf : List Rat) (m : List Bool) : Rat :=
  (List.zip (List.zip data vf) m).foldl (fun acc (vw, k) => if k then acc + vw.1 * vw.2 else acc) 0

def mul (data vf : List Rat) : List Rat := List.zipWith (· * ·) data vf

/-- one box as a worker sees it: the integrand component and (optionally) the weight component -/
structure WBox where
  lo : List Nat
  hi : List Nat
  data : List Rat
  vf : Option (List Rat)

def WBox.plain (b : WBox) : Box := { lo := b.lo, hi := b.hi, data := b.data }
/-- the same box holding value × volume fraction -/
def WBox.weighted (b : WBox) : Box :=
  { lo := b.lo, hi := b.hi, data := match b.vf with | some w => mul b.data w | none => b.data }

structure WLevel where
  grid : List Nat
  dx : List Rat
  boxes : List WBox

def WLevel.plain (l : WLevel) : Level := { grid := l.grid, dx := l.dx, boxes := l.boxes.map WBox.plain }
def WLevel.weighted (l : WLevel) : Level := { grid := l.grid, dx := l.dx, boxes := l.boxes.map WBox.weighted }

/-- `increment_sum_masked` -/
def workerMasked (fine : Level) (r : Nat) (lv : Level) (b : WBox) : Option Rat :=
  (mask fine r b.plain).map fun m =>
    match b.vf with
    | some w => dV lv * sumMasked2 b.data w m
    | none => dV lv * sumMasked b.data m

/-- `increment_sum` -/
def workerFull (lv : Level) (b : WBox) : Rat :=
  match b.vf with
  | some w => dV lv * (mul b.data w).foldl (· + ·) 0
  | none => dV lv * b.data.foldl (· + ·) 0

def levelMaskedW (fine : Level) (r : Nat) (lv : Level) : List WBox → Option Rat
  | [] => some 0
  | b :: bs => do
    let x ← workerMasked fine r lv b
    let rest ← levelMaskedW fine r lv bs
    pure (x + rest)

def levelFullW (lv : WLevel) : Rat := (lv.boxes.map (workerFull lv.plain)).foldl (· + ·) 0

def integralGoW (r : Nat) : List WLevel → Option Rat
  | [] => some 0
  | [last] => some (levelFullW last)
  | lv :: fine :: rest => do
    let s ← levelMaskedW fine.plain r lv.plain lv.boxes
    let t ← integralGoW r (fine :: rest)
    pure (s + t)

/-- how many levels the call reads: `0 … limit` when the limit is below the finest level -/
def nSel (limit : Option Nat) (n : Nat) : Nat :=
  match limit with
  | some l => if l + 1 < n then l + 1 else n
  | none => n

/-- what the workers receive: per box the integrand component and, when asked for and present, the
    `volFrac` component -/
def workerLevels (names : List String) (idInt : Nat) (useVF : Bool) (limit : Option Nat) (lvls : List MLevel) : List WLevel :=
  let idVol : Option Nat := if useVF && names.contains "volFrac" then names.idxOf? "volFrac" else none
  (lvls.take (nSel limit lvls.length)).map fun l =>
    { grid := l.grid, dx := l.dx,
      boxes := l.boxes.map fun b => { lo := b.lo, hi := b.hi, data := b.comps.getD idInt [],
                                      vf := idVol.map fun k => b.comps.getD k [] } }

/-- the call: `none` = a Python exception (unknown field, or a shape error in the masks) -/
def volumeIntegral (names : List String) (field : String) (useVF : Bool) (limit : Option Nat)
    (lvls : List MLevel) : Option Rat := do
  let idInt ← names.idxOf? field
  let sel := workerLevels names idInt useVF limit lvls
  integralGoW (boxRez true (sel.map WLevel.plain)) sel

/-- the levels the call integrates, as single-component levels of value × volume fraction -/
def selected (names : List String) (field : String) (useVF : Bool) (limit : Option Nat)
    (lvls : List MLevel) : List Level :=
  let idInt := (names.idxOf? field).getD 0
  let idVol : Option Nat := if useVF && names.contains "volFrac" then names.idxOf? "volFrac" else none
  (lvls.take (nSel limit lvls.length)).map fun l =>
    { grid := l.grid, dx := l.dx,
      boxes := l.boxes.map fun b =>
        { lo := b.lo, hi := b.hi,
          data := match idVol with
            | some k => mul (b.comps.getD idInt []) (b.comps.getD k [])
            | none => b.comps.getD idInt [] } }

end Pestle
