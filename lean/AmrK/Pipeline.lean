import AmrK.WritersSizes
/-! C14: pipelines of the copy tools equal the composed pure operations (record level, one AMR level;
    levels are handled independently by every tool).  A plotfile level is a list of `InBox` records;
    its *contents* are the component lists of its boxes in box order.  Recipes are functions of the
    box's own components (`ρ`), selections are index lists. -/
namespace Pipeline
open Writers

/-- generic: if every concrete step refines its pure counterpart, every finite sequence does -/
def run {S Op : Type} (step : S → Op → S) : S → List Op → S
  | s, [] => s
  | s, op :: ops => run step (step s op) ops

theorem run_refines {S C Op : Type} (step : S → Op → S) (pure : C → Op → C) (content : S → C)
    (Inv : S → Prop) (hinv : ∀ s op, Inv s → Inv (step s op))
    (h : ∀ s op, Inv s → content (step s op) = pure (content s) op) :
    ∀ (ops : List Op) (s : S), Inv s → Inv (run step s ops) ∧ content (run step s ops) = run pure (content s) ops := by
  intro ops
  induction ops with
  | nil => intro s hs; exact ⟨hs, rfl⟩
  | cons op ops ih =>
    intro s hs
    have := ih (step s op) (hinv s op hs)
    simp only [run]
    rw [← h s op hs]
    exact this

/-- every intermediate result satisfies the invariant (is a valid input for the next tool) -/
theorem run_prefix_inv {S Op : Type} (step : S → Op → S) (Inv : S → Prop) (hinv : ∀ s op, Inv s → Inv (step s op))
    (pre post : List Op) (s : S) (hs : Inv s) : Inv (run step s pre) ∧ run step s (pre ++ post) = run step (run step s pre) post := by
  induction pre generalizing s with
  | nil => exact ⟨hs, rfl⟩
  | cons op pre ih => simpa [run] using ih (step s op) (hinv s op hs)

/-! ### the concrete tools -/

inductive Op where
  | strain (kept : List Nat)
  | cook (kept : List Nat) (ρ : List Int → List Int)
  | combine (other : List InBox) (v1 v2 : List Nat)      -- with a sibling or an ancestor on the same mesh

/-- re-open an output level as an input level: each box keeps its geometry, gets the file and
    offset the tool wrote, and the components found at that offset -/
def reopen (src : List InBox) (out : List OutBox) : List InBox :=
  (List.zip src out).map fun (b, ob) =>
    { b with file := ob.file, offset := ob.offset, comps := (ob.found.map (·.2)).getD [] }

def step (s : List InBox) : Op → List InBox
  | .strain kept => reopen s (colander s (s.headD ⟨"", 0, 0, 0, 0, []⟩).comps.length kept)
  | .cook kept ρ => reopen s (chef s (s.headD ⟨"", 0, 0, 0, 0, []⟩).comps.length kept (fun i => ρ ((s[i]?.map (·.comps)).getD [])))
  | .combine other v1 v2 => if s.length = other.length then reopen s (combineLevel (byfileMode [s] [other]) s other v1 v2) else s

def content (s : List InBox) : List (List Int) := s.map (·.comps)

def pureStep (c : List (List Int)) : Op → List (List Int)
  | .strain kept => c.map fun comps => kept.filterMap (comps[·]?)
  | .cook kept ρ => c.map fun comps => kept.filterMap (comps[·]?) ++ ρ comps
  | .combine other v1 v2 =>
    if c.length = other.length then
      (List.zip c (other.map (·.comps))).map fun (x, y) => v1.filterMap (x[·]?) ++ v2.filterMap (y[·]?)
    else c

theorem length_colander (s : List InBox) (n : Nat) (kept : List Nat) : (colander s n kept).length = s.length := by
  unfold colander assemble; simp

theorem length_chef (s : List InBox) (n : Nat) (kept : List Nat) (f : Nat → List Int) : (chef s n kept f).length = s.length := by
  unfold chef assemble; simp

theorem length_combine (m : Bool) (s o : List InBox) (v1 v2 : List Nat) : (combineLevel m s o v1 v2).length = s.length := by
  unfold combineLevel assemble; simp

theorem content_reopen (s : List InBox) (out : List OutBox) (f : Nat → List Int) (hlen : out.length = s.length)
    (h : ∀ i b, s[i]? = some b → ∃ ob, out[i]? = some ob ∧ ob.found = some (i, f i)) :
    content (reopen s out) = (List.range s.length).map f := by
  apply List.ext_getElem?
  intro i
  unfold content reopen
  simp only [List.getElem?_map]
  by_cases hi : i < s.length
  · obtain ⟨ob, hob, hf⟩ := h i s[i] (List.getElem?_eq_getElem hi)
    have hz : (List.zip s out)[i]? = some (s[i], ob) := by
      rw [List.getElem?_zip_eq_some]; exact ⟨List.getElem?_eq_getElem hi, hob⟩
    rw [hz, List.getElem?_range hi]
    simp [hf]
  · have h1 : (List.zip s out)[i]? = none := by
      apply List.getElem?_eq_none; simp only [List.length_zip]; omega
    have h2 : (List.range s.length)[i]? = none := by
      apply List.getElem?_eq_none; simp only [List.length_range]; omega
    rw [h1, h2]; rfl

/-- **each tool refines its pure operation on contents** -/
theorem step_refines (s : List InBox) (op : Op) : content (step s op) = pureStep (content s) op := by
  cases op with
  | strain kept =>
    simp only [step, pureStep]
    rw [content_reopen s _ (fun i => kept.filterMap (((s[i]?.map (·.comps)).getD [])[·]?)) (length_colander _ _ _)]
    · unfold content
      apply List.ext_getElem?
      intro i
      simp only [List.getElem?_map]
      by_cases hi : i < s.length
      · rw [List.getElem?_range hi, List.getElem?_eq_getElem hi]; simp [List.getElem?_eq_getElem hi]
      · rw [List.getElem?_eq_none (by simp; omega), List.getElem?_eq_none (by omega)]; rfl
    · intro i b hb
      obtain ⟨ob, h1, _, h3⟩ := colander_data s _ kept i b hb (colRec_size_pos s _ kept)
      exact ⟨ob, h1, by rw [h3, hb]; rfl⟩
  | cook kept ρ =>
    simp only [step, pureStep]
    rw [content_reopen s _ (fun i => kept.filterMap (((s[i]?.map (·.comps)).getD [])[·]?) ++ ρ ((s[i]?.map (·.comps)).getD []))
      (length_chef _ _ _ _)]
    · unfold content
      apply List.ext_getElem?
      intro i
      simp only [List.getElem?_map]
      by_cases hi : i < s.length
      · rw [List.getElem?_range hi, List.getElem?_eq_getElem hi]; simp [List.getElem?_eq_getElem hi]
      · rw [List.getElem?_eq_none (by simp; omega), List.getElem?_eq_none (by omega)]; rfl
    · intro i b hb
      obtain ⟨ob, h1, _, h3⟩ := chef_data s _ kept _ (chefRec_size_pos s _ kept _) i b hb
      exact ⟨ob, h1, by rw [h3, hb]; rfl⟩
  | combine other v1 v2 =>
    simp only [step, pureStep]
    have hc : (content s).length = s.length := by unfold content; simp
    by_cases hlen : s.length = other.length
    · rw [if_pos hlen, if_pos (by rw [hc]; exact hlen)]
      rw [content_reopen s _ (fun i => v1.filterMap (((s[i]?.map (·.comps)).getD [])[·]?) ++
          v2.filterMap (((other[i]?.map (·.comps)).getD [])[·]?)) (length_combine _ _ _ _ _)]
      · unfold content
        apply List.ext_getElem?
        intro i
        simp only [List.getElem?_map]
        by_cases hi : i < s.length
        · have hz : (List.zip (List.map (fun x => x.comps) s) (List.map (fun x => x.comps) other))[i]?
              = some (s[i].comps, (other[i]'(by omega)).comps) := by
            rw [List.getElem?_zip_eq_some]
            simp [List.getElem?_eq_getElem hi, List.getElem?_eq_getElem (show i < other.length by omega)]
          rw [List.getElem?_range hi, hz]
          simp [List.getElem?_eq_getElem hi, List.getElem?_eq_getElem (show i < other.length by omega)]
        · rw [List.getElem?_eq_none (by simp; omega), List.getElem?_eq_none (by simp; omega)]; rfl
      · intro i b hb
        have hi : i < other.length := by
          rcases Nat.lt_or_ge i s.length with h | h
          · omega
          · rw [List.getElem?_eq_none h] at hb; cases hb
        obtain ⟨ob, h1, _, h3⟩ := combine_data (byfileMode [s] [other]) s other v1 v2 hlen
          (cmbRec_size_pos s other v1 v2) i b other[i] hb (List.getElem?_eq_getElem hi)
        exact ⟨ob, h1, by rw [h3, hb, List.getElem?_eq_getElem hi]; rfl⟩
    · rw [if_neg hlen, if_neg (by rw [hc]; exact hlen)]

/-- **C14.**  For every finite sequence of strain / cook / combine operations, the contents of the
    final plotfile level are what the same sequence of pure operations yields on the contents of
    the starting level — whatever layouts the intermediate files have. -/
theorem pipeline_refines (ops : List Op) (s : List InBox) :
    content (run step s ops) = run pureStep (content s) ops :=
  (run_refines step pureStep content (fun _ => True) (fun _ _ _ => trivial) (fun s op _ => step_refines s op) ops s trivial).2

theorem filterMap_range_take {α : Type} (l : List α) (n : Nat) (hn : n ≤ l.length) :
    (List.range n).filterMap (l[·]?) = l.take n := by
  induction n with
  | zero => simp
  | succ n ih =>
    rw [List.range_succ, List.filterMap_append, ih (by omega), List.take_add_one]
    simp [List.getElem?_eq_getElem (show n < l.length by omega)]

/-- straining with every field (indices `0 … n-1` of boxes holding `n` components) is the identity
    on contents -/
theorem strain_all_id (c : List (List Int)) (n : Nat) (h : ∀ comps ∈ c, comps.length = n) :
    pureStep c (.strain (List.range n)) = c := by
  simp only [pureStep]
  conv => rhs; rw [← List.map_id c]
  apply List.map_congr_left
  intro comps hc
  rw [filterMap_range_take comps n (by rw [h comps hc]; exact Nat.le_refl _), ← h comps hc, List.take_length]
  rfl

/-- cooking a field (no kept fields) and combining it back into the original gives the original
    components unchanged plus the new ones, box by box -/
theorem cook_then_combine_back (s : List InBox) (n : Nat) (ρ : List Int → List Int)
    (hn : ∀ b ∈ s, b.comps.length = n) (hρ : ∀ b ∈ s, (ρ b.comps).length = 1) :
    pureStep (content s) (.combine (step s (.cook [] ρ)) (List.range n) [0])
      = (content s).map fun comps => comps ++ ρ comps := by
  have hlen : (step s (.cook [] ρ)).length = s.length := by
    simp only [step, reopen, List.length_map, List.length_zip, length_chef]; omega
  have hcont := step_refines s (.cook [] ρ)
  simp only [pureStep] at hcont
  have hc : (content s).length = s.length := by unfold content; simp
  simp only [pureStep]
  rw [if_pos (by rw [hc, hlen])]
  have : (step s (.cook [] ρ)).map (·.comps) = (content s).map fun comps => ρ comps := by
    have := hcont; unfold content at this ⊢; simpa using this
  rw [this]
  apply List.ext_getElem?
  intro i
  simp only [List.getElem?_map]
  by_cases hi : i < s.length
  · have hz : (List.zip (content s) (List.map (fun comps => ρ comps) (content s)))[i]?
        = some (s[i].comps, ρ s[i].comps) := by
      rw [List.getElem?_zip_eq_some]; unfold content
      simp [List.getElem?_eq_getElem hi]
    rw [hz]
    unfold content
    simp only [List.getElem?_map, List.getElem?_eq_getElem hi, Option.map_some, Option.some.injEq]
    have h1 := hn s[i] (List.getElem_mem hi)
    have h2 := hρ s[i] (List.getElem_mem hi)
    rw [filterMap_range_take s[i].comps n (by omega), ← h1, List.take_length]
    congr 1
    match hr : ρ s[i].comps, h2 with
    | [x], _ => simp
  · rw [List.getElem?_eq_none (by simp [hc]; omega)]
    unfold content
    rw [List.getElem?_eq_none (by simp; omega)]; rfl

end Pipeline
