import AmrK.Generated.Constants
namespace Generated
/-- no reshape / flatten in the package asks explicitly for an order other than Fortran (x fastest, as
    the models assume); `expand_array` reshapes without the keyword and its C-order index arithmetic
    is `Cover.repeat_reshape_index` -/
theorem fortran_order_everywhere : nonFortranReshapes = [] := by decide
end Generated
