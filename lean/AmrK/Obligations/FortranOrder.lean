import AmrK.Generated.Constants
namespace Generated
/-- every reshape / flatten of box data is in Fortran order (x fastest), as the models assume; the one
    C-order reshape is `expand_array`, whose index arithmetic is `Cover.repeat_reshape_index` -/
theorem fortran_order_everywhere : nonFortranReshapes = [("amr_kitchen/mandoline/utils.py", "expand_array", "reshape")] := by decide
end Generated
