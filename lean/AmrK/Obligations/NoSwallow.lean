import AmrK.Generated.Constants
namespace Generated
/-- no write-side call (open for write, write, mkdir, save, …) sits inside a `try` block whose
    handlers swallow I/O errors: the hypothesis `NoSwallow` of `Effects.fault_propagates` (C13) -/
theorem no_swallowed_writes : swallowedWriteSites = [] := by decide
end Generated
