import AmrK.Generated.Constants
import AmrK.CanonDefs
/-! Obligations on the regenerated FAB header literals (re-checked on every run). -/
namespace Generated
/-- the byte-level printer of the model (`Py.canonB`, whose codec law `parse_canonB` is proved)
    starts with exactly the literal found in `utils.header_from_indices` -/
theorem utilsHeader_is_model_prefix :
    Py.ofString utilsHeaderConst = Py.sepJoin (Py.prefixToks.map (·, 32)) ++ Py.lastConst := by decide +kernel
end Generated
