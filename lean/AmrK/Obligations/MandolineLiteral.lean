import AmrK.Generated.Constants
/-! Obligations on the literals duplicated in mandoline's plotfile writer. -/
namespace Generated
/-- taste compares every FAB header but the first with `header_from_indices`; a 2D slice written by
    mandoline is only valid if its duplicated literal is the same text -/
theorem mandolineHeader_eq_utilsHeader : mandolineHeaderConst = utilsHeaderConst := by decide
theorem chunk_threshold : mandolineChunkBytes = 1000000 := by decide
end Generated
