import AmrK.Generated.Constants
/-! Obligations on the regenerated checkpoint tables. -/
namespace Generated
/-- the state vector ends with rhoh, temp, RhoRT and the species sit between index 4 and -3 -/
theorem state_layout : stateFieldIndices.lookup "Y_start" = some 4 ∧ stateFieldIndices.lookup "Y_end" = some (-3)
    ∧ stateFieldIndices.lookup "rhoh" = some (-3) ∧ stateFieldIndices.lookup "temp" = some (-2)
    ∧ stateFieldIndices.lookup "RhoRT" = some (-1) := by decide
theorem output_names_match_state_order :
    chk2pltNameLists.head? = some ["x_velocity", "y_velocity", "z_velocity", "density"] ∧
    chk2pltNameLists[1]? = some ["rhoh", "temp", "RhoRT"] := by decide
end Generated
