import AmrK.Generated.Constants
namespace Generated
/-- results are delivered in completion order (`imap_unordered`) only in whip, where the writes of
    one level commute (`Probe.foldl_write_perm`); everywhere else results are zipped with the
    submission list (C12, C10) -/
theorem unordered_only_in_whip : unorderedPoolCalls = [("amr_kitchen/whip/cli.py", "main")] := by decide
end Generated
