/-! Prototype: pestle's covering masks and volume integral (pinned and repaired variants). -/
namespace Pestle

structure Box where
  lo : List Nat
  hi : List Nat
  data : List Rat        -- one field, Fortran order (x fastest)
deriving Repr

structure Level where
  grid : List Nat
  dx : List Rat
  boxes : List Box
deriving Repr

def Box.shape (b : Box) : List Nat := List.zipWith (fun l h => h + 1 - l) b.lo b.hi

def listGcd (l : List Nat) : Nat := l.foldl Nat.gcd 0
def listMin (l : List Nat) : Nat := l.foldl min (l.headD 0)

/-- occupancy resolution: pinned = smallest box extent, repaired = gcd of all box faces -/
def boxRez (repaired : Bool) (lvls : List Level) : Nat :=
  let bs := lvls.flatMap (·.boxes)
  if repaired then max (listGcd (bs.flatMap fun b => b.lo ++ b.hi.map (· + 1))) 1
  else listMin (bs.flatMap Box.shape)

/-- `box_array[e]`: index of the last box whose coarse footprint contains entry `e`, else -1 -/
def boxArrayAt (boxes : List Box) (r : Nat) (e : List Nat) : Int :=
  let hit (b : Box) : Bool :=
    (List.zip (List.zip b.lo b.hi) e).all fun ((l, h), x) => l / r ≤ x && x ≤ h / r
  (List.zip (List.range boxes.length) boxes).foldl (fun acc (i, b) => if hit b then (i : Int) else acc) (-1)

/-- all local cell indices of a box, Fortran order -/
def cells : List Nat → List (List Nat)
  | [] => [[]]
  | n :: rest => (cells rest).flatMap fun tail => (List.range n).map fun i => i :: tail

/-- mask of one box of level `lv` against the occupancy map of level `lv+1`;
    `none` = numpy would raise (mask shape ≠ box shape) -/
def mask (fine : Level) (r : Nat) (b : Box) : Option (List Bool) :=
  let ashape := fine.grid.map (· / r)                       -- box_array shape
  let f := List.zipWith (fun g s => if s = 0 then 0 else g / s) fine.grid ashape   -- next_lv_factors
  if f.any (· = 0) then none else
  let starts := List.zipWith (fun l fk => (l * 2) / fk) b.lo f
  let ends := List.zipWith (fun h fk => (h * 2) / fk) b.hi f
  let bcast := f.headD 0 / 2
  let cnt := List.zipWith (fun (se : Nat × Nat) s => min (se.2 + 1) s - se.1) (List.zip starts ends) ashape
  if cnt.map (· * bcast) ≠ b.shape then none else
  some ((cells b.shape).map fun c =>
    boxArrayAt fine.boxes r (List.zipWith (fun s ck => s + ck / bcast) starts c) == -1)

def dV (l : Level) : Rat := l.dx.foldl (· * ·) 1

def sumMasked (data : List Rat) (m : List Bool) : Rat :=
  (List.zip data m).foldl (fun acc (v, k) => if k then acc + v else acc) 0

/-- contribution of one coarse box: `dV * Σ data[mask]`; `none` = numpy would raise -/
def boxMasked (fine : Level) (r : Nat) (lv : Level) (b : Box) : Option Rat :=
  (mask fine r b).map fun m => dV lv * sumMasked b.data m

/-- a masked level: the boxes in order, accumulated as `volume_integral` does -/
def levelMasked (fine : Level) (r : Nat) (lv : Level) : List Box → Option Rat
  | [] => some 0
  | b :: bs => do
    let x ← boxMasked fine r lv b
    let rest ← levelMasked fine r lv bs
    pure (x + rest)

def levelFull (lv : Level) : Rat := (lv.boxes.map fun b => dV lv * b.data.foldl (· + ·) 0).foldl (· + ·) 0

/-- levels `0 … L` (`lvls` already truncated to the limit): masked sums below the finest selected
    level, plain sum on it -/
def integralGo (r : Nat) : List Level → Option Rat
  | [] => some 0
  | [last] => some (levelFull last)
  | lv :: fine :: rest => do
    let s ← levelMasked fine r lv lv.boxes
    let t ← integralGo r (fine :: rest)
    pure (s + t)

/-- volume_integral -/
def integral (repaired : Bool) (lvls : List Level) : Option Rat := integralGo (boxRez repaired lvls) lvls

/-- specification: a coarse cell counts iff no box of the next level covers its refinement -/
def covered (fine : Level) (b : Box) (c : List Nat) : Bool :=
  fine.boxes.any fun fb =>
    (List.zip (List.zip fb.lo fb.hi) (List.zipWith (· + ·) b.lo c)).all fun ((l, h), x) => l ≤ 2 * x && 2 * x ≤ h

def levelSpec (fine lv : Level) : List Box → Rat
  | [] => 0
  | b :: bs => dV lv * sumMasked b.data ((cells b.shape).map fun c => !covered fine b c) + levelSpec fine lv bs

/-- Σ over the cells of levels `0 … L` that no box of the next selected level covers, of value · dV -/
def integralSpec : List Level → Rat
  | [] => 0
  | [last] => levelFull last
  | lv :: fine :: rest => levelSpec fine lv lv.boxes + integralSpec (fine :: rest)

end Pestle
