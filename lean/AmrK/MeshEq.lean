import AmrK.TasteCoords
/-! `PlotfileCooker.__eq__`: the compatibility test combine relies on.  Same level limit; per level the same number of
    boxes and physical bounds that are `np.allclose` (every entry within `atol + rtol·|other|`, numpy's defaults, over exact
    rationals); per level the very same index ranges (`np.array_equal`).  Nothing else is looked at: field names, binary
    files and offsets may differ.  Core-only (run by the driver). -/
namespace MeshEq

/-- one level as `__eq__` sees it: per box and direction the physical bounds, per box the index range -/
structure Lv where
  bounds : List (List (Rat × Rat))
  idx : List (List Int × List Int)
deriving Repr

def closePair (a b : Rat × Rat) : Bool := TasteCoords.isclose a.1 b.1 && TasteCoords.isclose a.2 b.2

/-- elementwise closeness of two lists of the same length -/
def allclose2 {α} (f : α → α → Bool) : List α → List α → Bool
  | [], [] => true
  | a :: as, b :: bs => f a b && allclose2 f as bs
  | _, _ => false

/-- `np.allclose(self.boxes[lv], other.boxes[lv])` for box lists of the same length and dimension -/
def boundsClose (a b : List (List (Rat × Rat))) : Bool := allclose2 (allclose2 closePair) a b

def levelEq (a b : Lv) : Bool :=
  a.bounds.length == b.bounds.length && boundsClose a.bounds b.bounds

/-- `p == q` -/
def eq (limA limB : Nat) (A B : List Lv) : Bool :=
  limA == limB && allclose2 levelEq (A.take (limA + 1)) (B.take (limA + 1)) &&
    allclose2 (fun a b => decide (a.idx = b.idx)) (A.take (limA + 1)) (B.take (limA + 1))

end MeshEq
