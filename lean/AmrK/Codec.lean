import AmrK.CodecSplit
import AmrK.Taste
/-! Probe: the FAB header codec law `parse (canon lo hi nf) = (lo, hi, nf)` on bytes. -/
namespace Py

/-- bytes of a printed integer: digits or '-' -/
def IntTok (s : Bytes) : Prop := ∀ b ∈ s, isDigit b = true ∨ b = 45
/-- bytes of a comma-joined integer list -/
def IntsTok (s : Bytes) : Prop := ∀ b ∈ s, isDigit b = true ∨ b = 45 ∨ b = 44

theorem intTok_intBytes (i : Int) : IntTok (intBytes i) := by
  unfold intBytes
  intro b hb
  split at hb
  · rcases List.mem_cons.mp hb with rfl | hb
    · right; rfl
    · left; exact (natBytes_spec _).1 b hb
  · left; exact (natBytes_spec _).1 b hb

theorem intBytes_ne_nil (i : Int) : intBytes i ≠ [] := by
  unfold intBytes
  split
  · simp
  · exact (natBytes_spec _).2.1

theorem intsTok_joinSep (ps : List Bytes) (h : ∀ p ∈ ps, IntTok p) : IntsTok (joinSep 44 ps) := by
  induction ps with
  | nil => intro b hb; cases hb
  | cons p ps ih =>
    cases ps with
    | nil =>
      intro b hb
      rcases h p List.mem_cons_self b hb with h1 | h1
      · exact Or.inl h1
      · exact Or.inr (Or.inl h1)
    | cons q rest =>
      intro b hb
      unfold joinSep at hb
      rcases List.mem_append.mp hb with hb | hb
      · rcases h p List.mem_cons_self b hb with h1 | h1
        · exact Or.inl h1
        · exact Or.inr (Or.inl h1)
      · rcases List.mem_cons.mp hb with rfl | hb
        · exact Or.inr (Or.inr rfl)
        · exact ih (fun x hx => h x (List.mem_cons_of_mem _ hx)) b hb

theorem intsTok_intsB (l : List Int) : IntsTok (intsB l) :=
  intsTok_joinSep _ (fun p hp => by
    obtain ⟨i, _, rfl⟩ := List.mem_map.mp hp
    exact intTok_intBytes i)

/-- a byte that is a digit, '-' or ',' is none of the structural bytes -/
theorem intsTok_facts (b : UInt8) (h : isDigit b = true ∨ b = 45 ∨ b = 44) :
    isSpace b = false ∧ b ≠ 40 ∧ b ≠ 41 ∧ b < 128 := by
  rcases h with h | rfl | rfl
  · obtain ⟨h1, h2⟩ := isDigit_bounds b h
    refine ⟨not_space_of_digit b h, ?_, ?_, ?_⟩
    · intro e; subst e; simp at h1
    · intro e; subst e; simp at h1
    · apply UInt8.lt_iff_toNat_lt.mpr; simp; omega
  · decide
  · decide

theorem intTok_noComma (s : Bytes) (h : IntTok s) : NoByte 44 s := by
  intro b hb e
  subst e
  rcases h 44 hb with h1 | h1
  · revert h1; decide
  · revert h1; decide

theorem intList_intsB (l : List Int) (hne : l ≠ []) : Taste.intList (intsB l) = some l := by
  unfold Taste.intList intsB
  rw [splitOn_joinSep 44 _ (by simpa using hne) (fun p hp => by
    obtain ⟨i, _, rfl⟩ := List.mem_map.mp hp
    exact intTok_noComma _ (intTok_intBytes i))]
  induction l with
  | nil => exact absurd rfl hne
  | cons i l ih =>
    cases l with
    | nil => simp [List.mapM_cons, pyInt_intBytes]
    | cons j rest =>
      rw [List.map_cons, List.mapM_cons, pyInt_intBytes]
      have := ih (by simp)
      simp only [Option.pure_def, Option.bind_eq_bind, Option.bind_some] at this ⊢
      rw [this]
      rfl

end Py

namespace Py

theorem intsTok_zerosB (d : Nat) : IntsTok (zerosB d) := by
  apply intsTok_joinSep
  intro p hp
  have : p = [48] := List.eq_of_mem_replicate hp
  subst this
  intro b hb
  have : b = 48 := by simpa using hb
  subst this; left; decide

/-- a token made of structural bytes and integer text has no whitespace and is ASCII -/
def Clean (s : Bytes) : Prop := ∀ b ∈ s, isSpace b = false ∧ b < 128

instance (s : Bytes) : Decidable (Clean s) := by unfold Clean; infer_instance

theorem clean_append (a b : Bytes) (ha : Clean a) (hb : Clean b) : Clean (a ++ b) := by
  intro x hx
  rcases List.mem_append.mp hx with h | h
  · exact ha x h
  · exact hb x h

theorem clean_intsTok (s : Bytes) (h : IntsTok s) : Clean s := by
  intro b hb
  have := intsTok_facts b (h b hb)
  exact ⟨this.1, this.2.2.2⟩

theorem clean_digits (s : Bytes) (h : AllDigits s) : Clean s := by
  intro b hb
  have := intsTok_facts b (Or.inl (h b hb))
  exact ⟨this.1, this.2.2.2⟩

theorem clean_tokStart (lo : List Int) : Clean (tokStart lo) := by
  unfold tokStart
  refine clean_append _ _ (clean_append _ _ (clean_append _ _ ?_ ?_) (clean_intsTok _ (intsTok_intsB lo))) ?_
  · unfold lastConst; decide
  · decide
  · decide

theorem clean_tokStop (hi : List Int) : Clean (tokStop hi) := by
  unfold tokStop
  refine clean_append _ _ (clean_append _ _ ?_ (clean_intsTok _ (intsTok_intsB hi))) ?_
  · decide
  · decide

theorem clean_tokType (d : Nat) : Clean (tokType d) := by
  unfold tokType
  refine clean_append _ _ (clean_append _ _ ?_ (clean_intsTok _ (intsTok_zerosB d))) ?_
  · decide
  · decide

theorem clean_prefix : ∀ p ∈ prefixToks, p ≠ [] ∧ Clean p := by
  unfold prefixToks Clean
  decide

end Py

namespace Py

theorem isAscii_sepJoin (l : List (Bytes × UInt8)) (h : ∀ p ∈ l, (∀ b ∈ p.1, b < 128) ∧ p.2 < 128) :
    isAscii (sepJoin l) = true := by
  unfold isAscii
  rw [List.all_eq_true]
  induction l with
  | nil => intro b hb; cases hb
  | cons p l ih =>
    obtain ⟨t, s⟩ := p
    intro b hb
    unfold sepJoin at hb
    obtain ⟨h1, h2⟩ := h (t, s) List.mem_cons_self
    rcases List.mem_append.mp hb with hb | hb
    · simpa using h1 b hb
    · rcases List.mem_cons.mp hb with rfl | hb
      · simpa using h2
      · exact ih (fun q hq => h q (List.mem_cons_of_mem _ hq)) b hb

theorem noByte40_ints (s : Bytes) (h : IntsTok s) : NoByte 40 s :=
  fun b hb => (intsTok_facts b (h b hb)).2.1
theorem noByte41_ints (s : Bytes) (h : IntsTok s) : NoByte 41 s :=
  fun b hb => (intsTok_facts b (h b hb)).2.2.1

theorem space32 : isSpace 32 = true := by decide
theorem space10 : isSpace 10 = true := by decide
theorem lt32 : (32 : UInt8) < 128 := by decide
theorem lt10 : (10 : UInt8) < 128 := by decide

def lastFour (lo hi : List Int) (nf : Nat) : List (Bytes × UInt8) :=
  [(tokStart lo, 32), (tokStop hi, 32), (tokType hi.length, 32), (natBytes nf, 10)]

theorem canon_tokens_ok (lo hi : List Int) (nf : Nat) :
    ∀ p ∈ prefixToks.map (·, (32 : UInt8)) ++ lastFour lo hi nf,
      (p.1 ≠ [] ∧ NoSpace p.1 ∧ isSpace p.2 = true) ∧ ((∀ b ∈ p.1, b < 128) ∧ p.2 < 128) := by
  intro p hp
  rcases List.mem_append.mp hp with hp | hp
  · obtain ⟨t, ht, rfl⟩ := List.mem_map.mp hp
    obtain ⟨h1, h2⟩ := clean_prefix t ht
    exact ⟨⟨h1, fun b hb => (h2 b hb).1, space32⟩, fun b hb => (h2 b hb).2, lt32⟩
  · unfold lastFour at hp
    simp only [List.mem_cons, List.mem_nil_iff, or_false] at hp
    rcases hp with rfl | rfl | rfl | rfl
    · have hc := clean_tokStart lo
      exact ⟨⟨by unfold tokStart lastConst; simp, fun b hb => (hc b hb).1, space32⟩, fun b hb => (hc b hb).2, lt32⟩
    · have hc := clean_tokStop hi
      exact ⟨⟨by unfold tokStop; simp, fun b hb => (hc b hb).1, space32⟩, fun b hb => (hc b hb).2, lt32⟩
    · have hc := clean_tokType hi.length
      exact ⟨⟨by unfold tokType; simp, fun b hb => (hc b hb).1, space32⟩, fun b hb => (hc b hb).2, lt32⟩
    · have hd := (natBytes_spec nf)
      have hc := clean_digits _ hd.1
      exact ⟨⟨hd.2.1, fun b hb => (hc b hb).1, space10⟩, fun b hb => (hc b hb).2, lt10⟩

/-- **FAB header codec law.**  What `header_from_indices` prints, the shared "last four tokens"
    parser reads back, for every dimension count and all integers (ghost cells make them negative). -/
theorem parse_canonB (lo hi : List Int) (nf : Nat) (hlo : lo ≠ []) (hhi : hi ≠ [])
    (hlen : lo.length = hi.length) :
    Taste.parseFabHeader (canonB lo hi nf) = some ⟨lo, hi, (nf : Int)⟩ := by
  have hok := canon_tokens_ok lo hi nf
  have hascii : isAscii (canonB lo hi nf) = true :=
    isAscii_sepJoin _ (fun p hp => (hok p hp).2)
  have hsplit : splitWs (canonB lo hi nf)
      = prefixToks ++ [tokStart lo, tokStop hi, tokType hi.length, natBytes nf] := by
    unfold canonB
    rw [splitWs_sepJoin _ (fun p hp => (hok p (by simpa [lastFour] using hp)).1)]
    simp [List.map_append, List.map_map, Function.comp_def]
  unfold Taste.parseFabHeader
  simp only [hascii, Bool.not_true, Bool.false_eq_true, if_false, hsplit]
  have hlen21 : (prefixToks ++ [tokStart lo, tokStop hi, tokType hi.length, natBytes nf]).length = 21 := by
    simp [prefixToks]
  have hdrop : (prefixToks ++ [tokStart lo, tokStop hi, tokType hi.length, natBytes nf]).drop (21 - 4)
      = [tokStart lo, tokStop hi, tokType hi.length, natBytes nf] := by
    have : prefixToks.length = 17 := by simp [prefixToks]
    rw [show 21 - 4 = prefixToks.length by rw [this]]
    exact List.drop_left
  rw [hlen21]
  simp only [show ¬ (21 < 4) by omega, if_false, hdrop]
  -- the four tokens
  have h1 : pyInt (natBytes nf) = some (nf : Int) := pyInt_natBytes nf
  have hstart : (splitOn 40 (tokStart lo)).getLast?.getD [] = intsB lo ++ [41] := by
    have : tokStart lo = (lastConst ++ [40]) ++ 40 :: (intsB lo ++ [41]) := by
      unfold tokStart; simp
    rw [this, splitOn_getLast 40 _ _ (by
      intro b hb
      rcases List.mem_append.mp hb with hb | hb
      · exact noByte40_ints _ (intsTok_intsB lo) b hb
      · have : b = 41 := by simpa using hb
        subst this; decide)]
    rfl
  have hlo' : remove 41 (intsB lo ++ [41]) = intsB lo := by
    rw [remove_append, remove_noByte 41 _ (noByte41_ints _ (intsTok_intsB lo)), remove_single, List.append_nil]
  have hstop : remove 41 (remove 40 (tokStop hi)) = intsB hi := by
    unfold tokStop
    have e1 : remove 40 ([40] ++ intsB hi ++ [41]) = intsB hi ++ [41] := by
      rw [remove_append, remove_append, remove_single, List.nil_append,
        remove_noByte 40 _ (noByte40_ints _ (intsTok_intsB hi)),
        remove_noByte 40 [41] (by intro b hb; have : b = 41 := by simpa using hb
                                  subst this; decide)]
    rw [e1, remove_append, remove_noByte 41 _ (noByte41_ints _ (intsTok_intsB hi)), remove_single, List.append_nil]
  simp only [h1, hstart, hlo', hstop, intList_intsB lo hlo, intList_intsB hi hhi, Option.bind_eq_bind,
    Option.bind_some, hlen]
  simp

end Py
