import AmrK.Header
import AmrK.Taste
/-! The text of a global `Header` as the writers print it (core-only: used by the driver). -/
namespace Header
open Py Taste

/-- one level block of the global header -/
structure LevelData where
  boxes : List (List (Bytes × Bytes))   -- box → dim → (lo, hi) tokens
  timeTok : Bytes                       -- third word of the level line
  stepLine : Bytes                      -- the line the reader skips
  dir : Bytes                           -- `Level_l`
  tail : Bytes                          -- what follows the `/`

/-- the content of a global header -/
structure HData where
  version : Bytes
  names : List Bytes
  ndims : Nat
  time : Bytes
  geoLo : List Bytes
  geoHi : List Bytes
  factors : List Int
  gridHi : List (List Int)              -- level → last cell index per direction
  steps : List Int
  dx : List (List Bytes)                -- level → cell sizes
  coordLine : Bytes
  levels : List LevelData
  trails : List Bytes := []             -- whitespace ending the lower-bound, upper-bound, ratio, grid and step lines (AMReX prints a blank after some)
  dxTrails : List Bytes := []           -- whitespace ending the cell-size line of each level

/-- the `k`-th entry of a list of trailing whitespaces (none when the list is shorter) -/
def trailAt (l : List Bytes) (k : Nat) : Bytes := l.getD k []

def tokLine (toks : List Bytes) : Bytes := joinSep 32 toks
/-- tokens separated by single blanks, followed by the trailing whitespace `tr` -/
def tokLineT (tr : Bytes) (toks : List Bytes) : Bytes := joinSep 32 toks ++ tr

/-- `((0,..,0) (hi) (0,..,0))` -/
def gridBlock (hi : List Int) : List Bytes :=
  [[40, 40] ++ zerosB hi.length ++ [41], [40] ++ intsB hi ++ [41], [40] ++ zerosB hi.length ++ [41, 41]]

def boxLines (b : List (Bytes × Bytes)) : List Bytes := b.map fun (lo, hi) => tokLine [lo, hi]

def levelLines (lv : Nat) (l : LevelData) : List Bytes :=
  [tokLine [natBytes lv, natBytes l.boxes.length, l.timeTok], l.stepLine] ++ l.boxes.flatMap boxLines ++
    [l.dir ++ 47 :: l.tail]

def levelsLines : Nat → List LevelData → List Bytes
  | _, [] => []
  | lv, l :: ls => levelLines lv l ++ levelsLines (lv + 1) ls

/-- the cell-size lines, the `k`-th one ended by the `k`-th trailing whitespace -/
def dxLines (trs : List Bytes) : Nat → List (List Bytes) → List Bytes
  | _, [] => []
  | k, d :: ds => tokLineT (trailAt trs k) d :: dxLines trs (k + 1) ds

def midLines (H : HData) : List Bytes :=
  [natBytes H.ndims, H.time, natBytes (H.levels.length - 1), tokLineT (trailAt H.trails 0) H.geoLo,
   tokLineT (trailAt H.trails 1) H.geoHi, tokLineT (trailAt H.trails 2) (H.factors.map intBytes),
   tokLineT (trailAt H.trails 3) (H.gridHi.flatMap gridBlock), tokLineT (trailAt H.trails 4) (H.steps.map intBytes)]

def renderLines (H : HData) : List Bytes :=
  [H.version, natBytes H.names.length] ++ (H.names ++ (midLines H ++ (dxLines H.dxTrails 0 H.dx ++
    ([H.coordLine, [48]] ++ levelsLines 0 H.levels))))

/-- the header text: one item per line, final newline -/
def render (H : HData) : Bytes := joinSep NL (renderLines H ++ [[]])


/-! ### executable well-formedness (the hypothesis of `parse_render`, checked on real files by the driver) -/

def noNLB (s : Bytes) : Bool := s.all (· ≠ NL)
def noSpaceB (s : Bytes) : Bool := s.all (!isSpace ·)
def ftokB (t : Bytes) : Bool := !t.isEmpty && noSpaceB t && pyFloatOk t

def LevelData.goodB (nd : Nat) (l : LevelData) : Bool :=
  !l.timeTok.isEmpty && noSpaceB l.timeTok && noNLB l.stepLine && l.dir.all (· ≠ 47) && noNLB l.dir && noNLB l.tail &&
    l.boxes.all fun b => b.length == nd && b.all fun p => ftokB p.1 && ftokB p.2

def HData.goodB (H : HData) : Bool :=
  noNLB H.version && H.names.all noNLB && noNLB H.time && pyFloatOk H.time &&
  H.geoLo.all ftokB && decide (H.ndims ≤ H.geoLo.length) && H.geoHi.all ftokB && decide (H.ndims ≤ H.geoHi.length) &&
  H.gridHi.length == H.levels.length &&
  (H.gridHi.all fun hi => !hi.isEmpty && decide (H.ndims ≤ hi.length) && hi.all fun x => decide (0 ≤ x + 1)) &&
  H.dx.length == H.levels.length && (H.dx.all fun d => decide (H.ndims ≤ d.length) && d.all ftokB) &&
  noNLB H.coordLine && !H.levels.isEmpty && H.levels.all (LevelData.goodB H.ndims) &&
  (H.trails ++ H.dxTrails).all (fun t => t.all fun b => isSpace b && b ≠ NL)

end Header
