import AmrK.Colander
/-! Prototype: record-level models of colander and (repaired) combine, one level at a time. -/
namespace Writers
open Col

structure InBox where
  file : String          -- binary file (basename)
  offset : Nat
  ncells : Nat
  hdrLen : Nat           -- byte length of this box's FAB header line in the input
  canonLen : Nat         -- byte length of `header_from_indices(lo, hi, 0)` (nfields printed as "0")
  comps : List Int       -- one tag per component block
deriving Repr

def digits (n : Nat) : Nat := (toString n).length

structure OutRec where
  box : Nat
  comps : List Int
  size : Nat
deriving Repr

def insertSorted (s : String) : List String → List String
  | [] => [s]
  | x :: xs => if s < x then s :: x :: xs else if s = x then x :: xs else x :: insertSorted s xs
/-- `np.unique` on file names -/
def unique (l : List String) : List String := l.foldl (fun acc s => insertSorted s acc) []

def idxsOf (boxes : List InBox) (f : String) : List Nat :=
  (List.range boxes.length).filter fun i => (boxes[i]?.map (·.file)) == some f

def tellsOf (recs : List OutRec) : List Nat :=
  let rec go (pos : Nat) : List OutRec → List Nat
    | [] => []
    | r :: rs => pos :: go (pos + r.size) rs
  go 0 recs

def recAtOf (recs : List OutRec) (o : Nat) : Option OutRec :=
  let rec go (pos : Nat) : List OutRec → Option OutRec
    | [] => none
    | r :: rs => if o = pos then some r else go (pos + r.size) rs
  go 0 recs

structure OutBox where
  file : String
  offset : Nat
  found : Option (Nat × List Int)     -- record at that offset of that output file: (box id, comps)
deriving Repr

/-- assemble the per-box view from per-file outputs and the offset re-mapping -/
def assemble (boxes : List InBox) (perFile : List (String × List Nat × List OutRec)) : List OutBox :=
  let mapped : Nat → Option Nat :=
    perFile.foldl (fun m (_, idxs, recs) => scatter m idxs (tellsOf recs)) (fun _ => none)
  (List.range boxes.length).map fun i =>
    let f := (boxes[i]?.map (·.file)).getD ""
    let recs := ((perFile.find? (·.1 == f)).map (·.2.2)).getD []
    let o := (mapped i).getD 0
    { file := f, offset := o, found := (recAtOf recs o).map fun r => (r.box, r.comps) }

/-- colander, one level: every input file is rewritten with the kept components, boxes in box order -/
def colander (boxes : List InBox) (nvars : Nat) (kept : List Nat) : List OutBox :=
  let perFile := (unique (boxes.map (·.file))).map fun f =>
    let idxs := idxsOf boxes f
    let recs := idxs.filterMap fun i => boxes[i]?.map fun b =>
      { box := i, comps := kept.filterMap (b.comps[·]?),
        size := b.hdrLen - digits nvars + digits kept.length + b.ncells * 8 * kept.length : OutRec }
    (f, idxs, recs)
  assemble boxes perFile

def strictlyIncreasing : List Nat → Bool
  | a :: b :: rest => a < b && strictlyIncreasing (b :: rest)
  | _ => true

/-- repaired combine, one level (the mode is chosen over all levels by the caller) -/
def combineLevel (byfile : Bool) (b1 b2 : List InBox) (v1 v2 : List Nat) : List OutBox :=
  let nf := v1.length + v2.length
  let perFile := (unique (b1.map (·.file))).map fun f =>
    let idxs := idxsOf b1 f
    let order :=
      if byfile then idxs      -- sequential scan: disk order, which the mode guarantees to be box order
      else idxs
    let recs := order.filterMap fun i => do
      let x ← b1[i]?
      let y ← b2[i]?
      pure { box := i, comps := v1.filterMap (x.comps[·]?) ++ v2.filterMap (y.comps[·]?),
             size := x.canonLen - 1 + digits nf + x.ncells * 8 * nf : OutRec }
    (f, idxs, recs)
  assemble b1 perFile

/-- validate_combine_input's (repaired) mode over all levels -/
def byfileMode (l1 l2 : List (List InBox)) : Bool :=
  (List.zip l1 l2).all fun (b1, b2) =>
    b1.map (·.file) == b2.map (·.file) &&
    (unique (b1.map (·.file))).all fun f =>
      strictlyIncreasing ((idxsOf b1 f).filterMap (b1[·]?.map (·.offset))) &&
      strictlyIncreasing ((idxsOf b2 f).filterMap (b2[·]?.map (·.offset)))

end Writers
