import AmrK.ReaderRProofs
/-! Probe: a recorded offset anywhere inside a FAB's header line reads that FAB's payload (C20 core:
    the reader and the validator share the "last four tokens" parser, so whatever position the
    validator's header check accepted, the reader lands on the same payload). -/
namespace ReaderR
open Py Taste Reader

theorem isLine_drop (L : Bytes) (hl : IsLine L) (d : Nat) (hd : d < L.length) : IsLine (L.drop d) := by
  obtain ⟨body, rfl, hb⟩ := hl
  have hdb : d ≤ body.length := by simp at hd; omega
  refine ⟨body.drop d, ?_, fun hm => hb (List.mem_of_mem_drop hm)⟩
  rw [List.drop_append_of_le_length hdb]

/-- reading every field from an offset `d` bytes into the header line -/
theorem read_inside_header (pre L payload post : Bytes) (h' : Hdr) (n nf d : Nat)
    (hl : IsLine L) (hd : d < L.length)
    (hp : parseFabHeader (L.drop d) = some h')
    (hcells : ncells h' = (n : Int)) (hn : 0 < n) (hnf : h'.nf = (nf : Int))
    (hlen : payload.length = n * nf * 8) :
    ∃ s e st, sliceIndices none none none (nf : Int) = some (s, e, st) ∧
      readR (pre ++ L ++ payload ++ post) (pre.length + d) (nf : Int) (.slice none none none)
        = some ⟨spatial h' ++ [((pyRange s e st).length : Int)],
                (pyRange s e st).map fun i => block payload n i.toNat⟩ := by
  have hsplit : pre ++ L ++ payload ++ post = (pre ++ L.take d) ++ L.drop d ++ payload ++ post := by
    simp [List.append_assoc, List.take_append_drop]
  have hlenpre : (pre ++ L.take d).length = pre.length + d := by
    simp [List.length_take]; omega
  rw [hsplit, ← hlenpre]
  exact readR_slice (pre ++ L.take d) (L.drop d) payload post h' n nf (isLine_drop L hl d hd) hp hcells hn hnf hlen
    none none none (by intro st h; cases h)

end ReaderR
