import AmrK.Reader
/-! Prototype: the *repaired* reader (drafts F1+F2): normalised indices, min..max window for
    lists, forward slices cut by step only, backward slices and masks refused. -/
namespace ReaderR
open Py Taste Reader

/-- `LevelDataSelector.__init__` after the repair: `none` = refused -/
def normalise (nf : Int) : FArg → Option FArg
  | .idx i => if -nf ≤ i && i < nf then some (.idx (i % nf)) else none
  | .list l => if !l.isEmpty && l.all (fun i => -nf ≤ i && i < nf) then some (.list (l.map (· % nf))) else none
  | .slice a b c =>
    match c with
    | some st => if st ≤ 0 then none else some (.slice a b c)
    | none => some (.slice a b c)

/-- blocks `first … first+k-1` of the payload that follows the header; `none` = short read -/
def windowR (raw : Bytes) (pos0 : Nat) (n : Nat) (first k : Nat) : Option (List Bytes) :=
  let bytes := (raw.drop (pos0 + n * first * 8)).take (n * k * 8)
  if bytes.length < n * k * 8 then none else
  some ((List.range k).map fun j => (bytes.drop (j * (n * 8))).take (n * 8))

def listMin (l : List Nat) : Nat := l.foldl min (l.headD 0)
def listMax (l : List Nat) : Nat := l.foldl max 0

/-- the repaired `mp_read_box_*` on an already normalised selector -/
def readBoxR (raw : Bytes) (off : Nat) (fa : FArg) : Option Out := do
  let line := lineOf (raw.drop off)
  let h ← parseFabHeader line
  let n := ncells h
  if n ≤ 0 then none
  let pos0 := off + line.length
  match fa with
  | .idx i =>
    if i < 0 then none
    let w ← windowR raw pos0 n.toNat i.toNat 1
    pure ⟨spatial h, w⟩
  | .slice a b c =>
    let (s, e, st) ← sliceIndices a b c h.nf
    let size := max (e - s) 0
    if s < 0 then none
    let w ← windowR raw pos0 n.toNat s.toNat size.toNat
    let sel := pyRange 0 size st
    let comps ← sel.mapM fun j => w[j.toNat]?
    pure ⟨spatial h ++ [(comps.length : Int)], comps⟩
  | .list l =>
    if l.any (· < 0) then none
    let ln := l.map Int.toNat
    let first := listMin ln
    let diff := listMax ln - first + 1
    let w ← windowR raw pos0 n.toNat first diff
    let comps ← ln.mapM fun j => w[j - first]?
    pure ⟨spatial h ++ [(comps.length : Int)], comps⟩

def readR (raw : Bytes) (off : Nat) (nf : Int) (fa : FArg) : Option Out :=
  (normalise nf fa).bind (readBoxR raw off)

end ReaderR
