/-! Which fields a tool writes, and in which order (the glue around the record-level writer models):
    colander's selection, combine's merge of two selections, chef's kept-plus-new list.  Core-only
    (run by the driver and compared with the field list of every real output header). -/
namespace Names

/-- a request against the names of a plotfile: `none` = everything in file order, otherwise the
    requested names that exist, in request order (unknown names are dropped) -/
def select (names : List String) (req : Option (List String)) : List String :=
  match req with
  | none => names
  | some r => r.filter (names.contains ·)

/-- positions of the selected fields in the input -/
def indices (names : List String) (sel : List String) : List Nat := sel.filterMap (names.idxOf? ·)

/-- combine: the selected fields of the first input, then those of the second not already taken -/
def combine (n1 n2 : List String) (v1 v2 : Option (List String)) : List String :=
  let s1 := select n1 v1
  s1 ++ (select n2 v2).filter (!s1.contains ·)

/-- chef: the kept fields that exist (request order), then the names the recipe produces -/
def chef (names kept new : List String) : List String := kept.filter (names.contains ·) ++ new

theorem mem_select (names : List String) (req : Option (List String)) (x : String) (h : x ∈ select names req) :
    x ∈ names := by
  cases req with
  | none => exact h
  | some r =>
    simp only [select, List.mem_filter, List.contains_iff_mem] at h
    exact h.2

theorem select_some_sublist (names r : List String) : (select names (some r)).Sublist r := List.filter_sublist

/-- every requested name that exists is selected -/
theorem select_complete (names r : List String) (x : String) (hr : x ∈ r) (hn : x ∈ names) :
    x ∈ select names (some r) := by
  simp only [select, List.mem_filter, List.contains_iff_mem]
  exact ⟨hr, hn⟩

theorem select_nodup (names : List String) (req : Option (List String)) (hn : names.Nodup)
    (hr : ∀ r, req = some r → r.Nodup) : (select names req).Nodup := by
  cases req with
  | none => exact hn
  | some r => exact (hr r rfl).sublist (select_some_sublist names r)

/-- **the output of combine starts with exactly the selection of the first input** -/
theorem combine_first (n1 n2 : List String) (v1 v2 : Option (List String)) :
    (combine n1 n2 v1 v2).take (select n1 v1).length = select n1 v1 := by
  simp [combine]

/-- **a field is in the output iff it is selected from the first input, or selected from the second and
    not already taken** -/
theorem mem_combine (n1 n2 : List String) (v1 v2 : Option (List String)) (x : String) :
    x ∈ combine n1 n2 v1 v2 ↔ x ∈ select n1 v1 ∨ (x ∈ select n2 v2 ∧ x ∉ select n1 v1) := by
  simp only [combine, List.mem_append, List.mem_filter, Bool.not_eq_true']
  constructor
  · rintro (h | ⟨h1, h2⟩)
    · exact Or.inl h
    · exact Or.inr ⟨h1, by simpa using h2⟩
  · rintro (h | ⟨h1, h2⟩)
    · exact Or.inl h
    · exact Or.inr ⟨h1, by simpa using h2⟩

/-- **no field name occurs twice in the output** (for inputs and requests without repeated names) -/
theorem combine_nodup (n1 n2 : List String) (v1 v2 : Option (List String)) (h1 : n1.Nodup) (h2 : n2.Nodup)
    (hr1 : ∀ r, v1 = some r → r.Nodup) (hr2 : ∀ r, v2 = some r → r.Nodup) : (combine n1 n2 v1 v2).Nodup := by
  unfold combine
  simp only
  rw [List.nodup_append]
  refine ⟨select_nodup n1 v1 h1 hr1, (select_nodup n2 v2 h2 hr2).sublist List.filter_sublist, ?_⟩
  intro a ha b hb
  simp only [List.mem_filter, Bool.not_eq_true'] at hb
  intro e
  subst e
  exact absurd ha (by simpa using hb.2)

/-- the relative order of the second input's contribution is the order of its selection -/
theorem combine_second_sublist (n1 n2 : List String) (v1 v2 : Option (List String)) :
    ((combine n1 n2 v1 v2).drop (select n1 v1).length).Sublist (select n2 v2) := by
  simp [combine, List.filter_sublist]

/-- chef: the new names come last, the kept ones are the existing requested names in request order -/
theorem chef_split (names kept new : List String) :
    (chef names kept new).take (kept.filter (names.contains ·)).length = kept.filter (names.contains ·) ∧
    (chef names kept new).drop (kept.filter (names.contains ·)).length = new := by
  simp [chef]

end Names

namespace Names

/-- the positions reported for a selection point at those very names: position `k` of the result is
    an index of `names` holding the `k`-th selected name (for selections of existing names) -/
theorem indices_spec (names sel : List String) (h : ∀ x ∈ sel, x ∈ names) :
    (indices names sel).length = sel.length ∧
      ∀ (k i : Nat), (indices names sel)[k]? = some i → ∃ x, sel[k]? = some x ∧ names[i]? = some x := by
  induction sel with
  | nil => exact ⟨rfl, fun k i h => by simp [indices] at h⟩
  | cons y ys ih =>
    have hy : y ∈ names := h y (by simp)
    obtain ⟨j, hj⟩ : ∃ j, names.idxOf? y = some j := by
      cases hfi : names.idxOf? y with
      | some j => exact ⟨j, rfl⟩
      | none =>
        exfalso
        have := List.idxOf?_eq_none_iff.mp hfi
        exact this hy
    obtain ⟨ihl, ihs⟩ := ih (fun x hx => h x (by simp [hx]))
    have hcons : indices names (y :: ys) = j :: indices names ys := by
      simp [indices, List.filterMap_cons, hj]
    refine ⟨by rw [hcons]; simp [ihl], ?_⟩
    intro k i hk
    rw [hcons] at hk
    cases k with
    | zero =>
      simp at hk
      subst hk
      refine ⟨y, by simp, ?_⟩
      have := List.idxOf?_eq_some_iff.mp hj
      obtain ⟨hlt, hget, _⟩ := this
      simp [List.getElem?_eq_getElem hlt, hget]
    | succ k =>
      simp at hk
      obtain ⟨x, hx1, hx2⟩ := ihs k i hk
      exact ⟨x, by simpa using hx1, hx2⟩

end Names
