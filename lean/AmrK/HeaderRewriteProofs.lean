import AmrK.HeaderRewrite
import AmrK.HeaderCodec
/-! What re-reading a header written by colander / combine / chef gives, in terms of the input header. -/
namespace Header
open Py Taste

/-- **the written header is read back as its content** (hypothesis decided by the driver on every written header) -/
theorem rewrite_read_back (fl : Bytes → Bytes) (own : Bool) (m : Meta) (coord : Bytes) (names : List Bytes)
    (hg : (rewriteOf fl own m coord names).goodB = true) :
    parse (render (rewriteOf fl own m coord names)) none =
      .ok ((rewriteOf fl own m coord names).meta (rewriteOf fl own m coord names).levels.length) :=
  parse_render _ (HData.goodB_sound _ hg)

theorem rewrite_levels_length (fl : Bytes → Bytes) (own : Bool) (m : Meta) (coord : Bytes) (names : List Bytes) :
    (rewriteOf fl own m coord names).levels.length = (m.limitLevel + 1).toNat := by
  simp [rewriteOf]

theorem map_range_getD {α β : Type} (L : List α) (d : α) (g : α → β) :
    (List.range L.length).map (fun i => g (L.getD i d)) = L.map g := by
  apply List.ext_getElem
  · simp
  · intro i h1 h2
    simp only [List.length_map, List.length_range] at h1
    simp [List.getD_eq_getElem?_getD, List.getElem?_eq_getElem h1]

theorem box_id (nd : Nat) (b : List (Bytes × Bytes)) (h : b.length = nd) :
    (b.take nd).map (fun p => ((id p.1 : Bytes), (id p.2 : Bytes))) = b := by
  rw [← h, List.take_length]
  simp

/-- **straining / combining / cooking keeps the mesh metadata** (tokens already in Python's shortest form, `fl = id`):
    for a good input header read under the limit `l`, the header the tool writes is read back (its own hypothesis
    decided by the driver) as: the new field table; levels `0 … l`; and the input's time, domain bounds, and - cut after
    level `l` - cell sizes, grid sizes, step numbers, box counts and physical boxes -/
theorem rewrite_keeps_mesh (Hin : HData) (hin : Hin.Good) (l : Nat) (hl : l < Hin.levels.length) (own : Bool)
    (coord : Bytes) (names : List Bytes) :
    let Hout := rewriteOf id own (Hin.meta (l + 1)) coord names
    let M := Hout.meta (l + 1)
    Hout.levels.length = l + 1 ∧
    M.fields = tableOf names ∧ M.maxLevel = (l : Int) ∧ M.limitLevel = (l : Int) ∧ M.ndims = Hin.ndims ∧
    M.time = Hin.time ∧ M.geoLo = Hin.geoLo ∧ M.geoHi = Hin.geoHi ∧
    M.dx = Hin.dx.take (l + 1) ∧ M.gridSizes = (Hin.gridHi.take (l + 1)).map (·.map (· + 1)) ∧
    M.steps = Hin.steps.take (l + 1) ∧
    M.boxes = (Hin.levels.take (l + 1)).map (·.boxes) ∧
    M.npoints = (Hin.levels.take (l + 1)).map (fun L => (L.boxes.length : Int)) := by
  intro Hout M
  have hlim : ((Hin.meta (l + 1)).limitLevel + 1).toNat = l + 1 := by
    simp only [HData.meta, Nat.add_sub_cancel]
    omega
  have hnd : (Hin.meta (l + 1)).ndims.toNat = Hin.ndims := by simp [HData.meta]
  have hlen : ((Hin.levels.take (l + 1)).map (·.boxes)).length = l + 1 := by
    simp only [List.length_map, List.length_take]; omega
  -- the level blocks of the written header, as a map over the input's levels
  have hlevels : Hout.levels.map (·.boxes) = (Hin.levels.take (l + 1)).map (·.boxes) := by
    show (rewriteOf id own (Hin.meta (l + 1)) coord names).levels.map (·.boxes) = _
    simp only [rewriteOf, hlim, hnd, List.map_map]
    have h1 : (Hin.meta (l + 1)).boxes = (Hin.levels.take (l + 1)).map (·.boxes) := rfl
    rw [h1]
    have := map_range_getD ((Hin.levels.take (l + 1)).map (·.boxes)) []
      (fun bs => bs.map fun b => (b.take Hin.ndims).map fun p => ((id p.1 : Bytes), (id p.2 : Bytes)))
    rw [hlen] at this
    refine this.trans ?_
    rw [List.map_map]
    apply List.map_congr_left
    intro L hL
    have hLin : L ∈ Hin.levels := List.mem_of_mem_take hL
    have hgood := hin.levels.2 L hLin
    simp only [Function.comp]
    rw [List.map_congr_left (g := id)]
    · simp
    · intro b hb
      exact box_id Hin.ndims b (hgood.2.2.2.2.2.2 b hb).1
  have hlvlen : Hout.levels.length = l + 1 := by
    show (rewriteOf id own (Hin.meta (l + 1)) coord names).levels.length = _
    rw [rewrite_levels_length, hlim]
  have htake : Hout.levels.take (l + 1) = Hout.levels := by
    rw [← hlvlen, List.take_length]
  refine ⟨hlvlen, rfl, ?_, ?_, ?_, rfl, ?_, ?_, ?_, ?_, ?_, ?_, ?_⟩
  · show (((Hout.levels.length - 1 : Nat) : Int)) = l
    rw [hlvlen]; simp
  · show ((((l + 1) - 1 : Nat) : Int)) = l
    simp
  · show ((Hout.ndims : Nat) : Int) = Hin.ndims
    show (((Hin.meta (l + 1)).ndims.toNat : Nat) : Int) = _
    rw [hnd]
  · show (Hin.meta (l + 1)).geoLo.map id = _
    simp [HData.meta]
  · show (Hin.meta (l + 1)).geoHi.map id = _
    simp [HData.meta]
  · show ((Hin.meta (l + 1)).dx.take ((Hin.meta (l + 1)).limitLevel + 1).toNat).map (·.map id) = _
    rw [hlim]; simp [HData.meta]
  · show (((Hin.meta (l + 1)).gridSizes.take ((Hin.meta (l + 1)).limitLevel + 1).toNat).map (·.map (· - 1))).map (·.map (· + 1)) = _
    rw [hlim]
    simp only [HData.meta, List.map_map, ← List.map_take]
    apply List.map_congr_left
    intro hi _
    simp [Function.comp]
  · show (Hin.meta (l + 1)).steps.take ((Hin.meta (l + 1)).limitLevel + 1).toNat = _
    rw [hlim]; rfl
  · show (Hout.levels.take (l + 1)).map (·.boxes) = _
    rw [htake, hlevels]
  · show (Hout.levels.take (l + 1)).map (fun L => (L.boxes.length : Int)) = _
    rw [htake]
    have : Hout.levels.map (fun L => (L.boxes.length : Int)) = (Hout.levels.map (·.boxes)).map (fun b => (b.length : Int)) := by
      simp [List.map_map, Function.comp]
    rw [this, hlevels]
    simp only [List.map_map, List.map_take]
    rfl


/-! ### plotfile-format slices -/

theorem slice2D_read_back (fl : Bytes → Bytes) (m : Meta) (coord : Bytes) (names : List Bytes) (cx cy : Nat) (sel : List (List Nat))
    (hg : (slice2D fl m coord names cx cy sel).goodB = true) :
    parse (render (slice2D fl m coord names cx cy sel)) none =
      .ok ((slice2D fl m coord names cx cy sel).meta (slice2D fl m coord names cx cy sel).levels.length) :=
  parse_render _ (HData.goodB_sound _ hg)

/-- **what the 2D header of a slice says** (float tokens in shortest form): two dimensions, the sliced field names, the
    input's time, levels `0 … limit`, the in-plane components of the domain bounds and of every level's cell sizes and grid
    sizes, and per level exactly the in-plane bounds of the boxes whose numbers were selected, in that order -/
theorem slice2D_meta (m : Meta) (coord : Bytes) (names : List Bytes) (cx cy : Nat) (sel : List (List Nat)) :
    let n := (m.limitLevel + 1).toNat
    let H := slice2D id m coord names cx cy sel
    let M := H.meta H.levels.length
    H.levels.length = n ∧ M.ndims = 2 ∧ M.fields = tableOf names ∧ M.time = m.time ∧
    M.geoLo = [m.geoLo.getD cx [], m.geoLo.getD cy []] ∧ M.geoHi = [m.geoHi.getD cx [], m.geoHi.getD cy []] ∧
    M.dx = (m.dx.take n).map (fun d => [d.getD cx [], d.getD cy []]) ∧
    M.gridSizes = (m.gridSizes.take n).map (fun g => [g.getD cx 0, g.getD cy 0]) ∧
    M.steps = m.steps.take n ∧
    M.boxes = (List.range n).map (fun lv => (sel.getD lv []).map fun i => box2D id cx cy ((m.boxes.getD lv []).getD i [])) ∧
    M.npoints = (List.range n).map (fun lv => ((sel.getD lv []).length : Int)) := by
  intro n H M
  have hlen : H.levels.length = n := by
    show (slice2D id m coord names cx cy sel).levels.length = _
    simp [slice2D, n]
  have htake : H.levels.take H.levels.length = H.levels := List.take_length
  refine ⟨hlen, rfl, rfl, rfl, rfl, rfl, ?_, ?_, rfl, ?_, ?_⟩
  · show ((m.dx.take n).map fun d => [id (d.getD cx []), id (d.getD cy [])]) = _
    rfl
  · show ((m.gridSizes.take n).map fun g => [g.getD cx 0 - 1, g.getD cy 0 - 1]).map (·.map (· + 1)) = _
    rw [List.map_map]
    apply List.map_congr_left
    intro g _
    simp only [Function.comp, List.map_cons, List.map_nil, Int.sub_add_cancel]
  · show (H.levels.take H.levels.length).map (fun (l : LevelData) => l.boxes) = _
    rw [htake]
    show ((slice2D id m coord names cx cy sel).levels).map (fun (l : LevelData) => l.boxes) = _
    simp only [slice2D, List.map_map]
    rfl
  · show (H.levels.take H.levels.length).map (fun (l : LevelData) => (l.boxes.length : Int)) = _
    rw [htake]
    show ((slice2D id m coord names cx cy sel).levels).map (fun (l : LevelData) => (l.boxes.length : Int)) = _
    simp only [slice2D, List.map_map]
    apply List.map_congr_left
    intro lv _
    simp [Function.comp]

end Header
