import AmrK.HeaderRender
/-! The global header a writing tool prints from what its reader holds (`write_global_header_new_fields`, used by
    colander, combine and chef): the reader's metadata (already cut at the level limit), the new field names, and
    `fl` = Python's `str(float(token))` for every float token (a parameter: float formatting is not modelled).
    Core-only (run by the driver and compared byte for byte with every header those tools write). -/
namespace Header
open Py Taste

def levelDir (lv : Nat) : Bytes := "Level_".toUTF8.toList ++ natBytes lv

/-- `ownWriter`: colander and chef carry their own copy of the writer, which prints an empty refinement-ratio line for
    a single-level output; combine uses the reader's (`write_global_header_new_fields`), which does not -/
def rewriteOf (fl : Bytes → Bytes) (ownWriter : Bool) (m : Meta) (coord : Bytes) (names : List Bytes) : HData :=
  let n := (m.limitLevel + 1).toNat
  let nd := m.ndims.toNat
  { version := m.version, names := names, ndims := nd, time := fl m.time,
    geoLo := m.geoLo.map fl, geoHi := m.geoHi.map fl,
    factors := if ownWriter && decide (n ≤ 1) then [] else m.factors.take n,
    gridHi := (m.gridSizes.take n).map (·.map (· - 1)),
    steps := m.steps.take n,
    dx := (m.dx.take n).map (·.map fl),
    coordLine := coord,
    levels := (List.range n).map fun lv =>
      { boxes := (m.boxes.getD lv []).map fun b => (b.take nd).map fun p => (fl p.1, fl p.2),
        timeTok := fl m.time, stepLine := intBytes (m.steps.getD lv 0), dir := levelDir lv, tail := "Cell".toUTF8.toList },
    trails := [], dxTrails := [] }

end Header

namespace Header
open Py Taste

/-- the in-plane part of one physical box -/
def box2D (fl : Bytes → Bytes) (cx cy : Nat) (b : List (Bytes × Bytes)) : List (Bytes × Bytes) :=
  [cx, cy].map fun c => let p := b.getD c ([], []); (fl p.1, fl p.2)

/-- the global Header of a plotfile-format slice (`write_2d_slice_global_header`): from the reader's metadata of the 3D
    input, the in-plane axes `cx`, `cy`, the names of the sliced fields and, per level, the numbers of the boxes the plane
    meets -/
def slice2D (fl : Bytes → Bytes) (m : Meta) (coord : Bytes) (names : List Bytes) (cx cy : Nat) (sel : List (List Nat)) : HData :=
  let n := (m.limitLevel + 1).toNat
  { version := m.version, names := names, ndims := 2, time := fl m.time,
    geoLo := [fl (m.geoLo.getD cx []), fl (m.geoLo.getD cy [])],
    geoHi := [fl (m.geoHi.getD cx []), fl (m.geoHi.getD cy [])],
    factors := m.factors.take (n - 1),
    gridHi := (m.gridSizes.take n).map fun g => [g.getD cx 0 - 1, g.getD cy 0 - 1],
    steps := m.steps.take n,
    dx := (m.dx.take n).map fun d => [fl (d.getD cx []), fl (d.getD cy [])],
    coordLine := coord,
    levels := (List.range n).map fun lv =>
      { boxes := (sel.getD lv []).map fun i => box2D fl cx cy ((m.boxes.getD lv []).getD i []),
        timeTok := fl m.time, stepLine := intBytes (m.steps.getD lv 0), dir := levelDir lv, tail := "Cell".toUTF8.toList },
    trails := [], dxTrails := [] }

end Header
