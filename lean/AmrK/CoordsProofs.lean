import AmrK.Coords
import Mathlib.Tactic.Ring
import Mathlib.Tactic.FieldSimp
import Mathlib.Tactic.Linarith
namespace Coords

theorem linspace_centre (lo dx : Rat) (n k : Nat) (hn : 1 ≤ n) (hk : k < n) :
    linspaceAt (lo + dx / 2) (lo + (n : Rat) * dx - dx / 2) n k = lo + ((k : Rat) + 1 / 2) * dx := by
  unfold linspaceAt
  split
  · have : n = 1 := by omega
    subst this
    have : k = 0 := by omega
    subst this
    simp
    ring
  · have h1 : ((n : Rat) - 1) ≠ 0 := by
      have : (2 : Rat) ≤ n := by exact_mod_cast (by omega : 2 ≤ n)
      intro h
      linarith
    field_simp
    ring

/-- **the coordinate arrays are exactly the cell centres of the selected level's grid**, one per cell -/
theorem axis_eq_centres (lo hi dx : Rat) (n : Nat) (h : hi = lo + (n : Rat) * dx) :
    axis lo hi dx n = centres lo dx n := by
  subst h
  unfold axis centres
  apply List.map_congr_left
  intro k hk
  have hk' : k < n := List.mem_range.mp hk
  exact linspace_centre lo dx n k (by omega) hk'

theorem axis_length (lo hi dx : Rat) (n : Nat) : (axis lo hi dx n).length = n := by simp [axis]

end Coords
