import AmrK.TasteComplete
import AmrK.CellHCodec
import AmrK.HeaderCodec
import AmrK.TasteAll
import AmrK.TasteWFModel
/-! # Completeness of validation for well-formed plotfiles (C03 at full strength, model level)

A plotfile that is *well formed* - its global header is a text of the header renderer, every
selected level directory holds a level header that is a text of the level-header renderer, and every
binary file is the concatenation of canonical FABs of the announced sizes sitting at the recorded
offsets - is reported good by the validator model `Taste.tastePlt`, for every level limit within the
header's levels and every combination of the options `binary_headers` / `binary_shape`, however the
boxes are distributed over the binary files and in whatever order the level header lists them. -/
namespace Taste
open Py

/-! ### sorting by offset -/

def offLt (a b : Entry) : Prop := a.offset < b.offset

theorem insertSorted_perm (e : Entry) (acc : List Entry) : (insertSorted e acc).Perm (e :: acc) := by
  induction acc with
  | nil => exact List.Perm.refl _
  | cons x xs ih =>
    unfold insertSorted
    split
    · exact List.Perm.refl _
    · exact (List.Perm.cons x ih).trans (List.Perm.swap e x xs)

theorem insertSorted_pairwise (e : Entry) (acc : List Entry) (h : acc.Pairwise offLt)
    (hne : ∀ x ∈ acc, x.offset ≠ e.offset) : (insertSorted e acc).Pairwise offLt := by
  induction acc with
  | nil => simp [insertSorted]
  | cons x xs ih =>
    unfold insertSorted
    have hx := List.pairwise_cons.mp h
    split
    · rename_i hlt
      refine List.pairwise_cons.mpr ⟨?_, h⟩
      intro y hy
      rcases List.mem_cons.mp hy with rfl | hy
      · exact hlt
      · exact Int.lt_trans hlt (hx.1 y hy)
    · rename_i hge
      have hxe : x.offset < e.offset := by
        have := hne x (by simp)
        unfold offLt at *; omega
      refine List.pairwise_cons.mpr ⟨?_, ih hx.2 (fun y hy => hne y (by simp [hy]))⟩
      intro y hy
      rcases List.mem_cons.mp ((insertSorted_perm e xs).subset hy) with rfl | hy
      · exact hxe
      · exact hx.1 y hy

theorem sort_foldl (l acc : List Entry) (hacc : acc.Pairwise offLt)
    (hl : l.Pairwise (fun a b => a.offset ≠ b.offset)) (hd : ∀ x ∈ acc, ∀ y ∈ l, x.offset ≠ y.offset) :
    (l.foldl (fun acc e => insertSorted e acc) acc).Pairwise offLt ∧
      (l.foldl (fun acc e => insertSorted e acc) acc).Perm (l ++ acc) := by
  induction l generalizing acc with
  | nil => exact ⟨hacc, List.Perm.refl _⟩
  | cons e l ih =>
    have hl' := List.pairwise_cons.mp hl
    simp only [List.foldl_cons]
    have h1 := insertSorted_pairwise e acc hacc (fun x hx => hd x hx e (by simp))
    have h2 : ∀ x ∈ insertSorted e acc, ∀ y ∈ l, x.offset ≠ y.offset := by
      intro x hx y hy
      rcases List.mem_cons.mp ((insertSorted_perm e acc).subset hx) with rfl | hx
      · exact hl'.1 y hy
      · exact hd x hx y (by simp [hy])
    obtain ⟨p1, p2⟩ := ih (insertSorted e acc) h1 hl'.2 h2
    refine ⟨p1, p2.trans ?_⟩
    have : (l ++ insertSorted e acc).Perm (l ++ e :: acc) := List.Perm.append_left l (insertSorted_perm e acc)
    exact this.trans (by simpa using (List.perm_middle (l₁ := l) (l₂ := acc) (a := e)))

/-- **insertion by offset of any permutation of a list with strictly increasing offsets gives that list** -/
theorem sortByOffset_perm_sorted (l s : List Entry) (hs : s.Pairwise offLt) (hp : l.Perm s) : sortByOffset l = s := by
  have hne : l.Pairwise (fun a b => a.offset ≠ b.offset) := by
    have : s.Pairwise (fun a b => a.offset ≠ b.offset) := hs.imp (fun h => by unfold offLt at h; omega)
    exact this.perm hp.symm (fun h => fun e => h e.symm)
  obtain ⟨p1, p2⟩ := sort_foldl l [] List.Pairwise.nil hne (by simp)
  unfold sortByOffset
  have p3 : (l.foldl (fun acc e => insertSorted e acc) []).Perm l := by simpa using p2
  refine List.Perm.eq_of_pairwise (le := offLt) ?_ p1 hs (p3.trans hp)
  intro a b _ _ h1 h2
  unfold offLt at h1 h2; omega

/-! ### one binary file -/

/-- entry `k` of the file sits where the segments before it end -/
def OffsetsOK (nf : Nat) : Nat → List (Entry × Bytes) → Prop
  | _, [] => True
  | pos, (e, P) :: rest =>
    e.offset = (pos : Int) ∧ OffsetsOK nf (pos + (canonHeader e.lo e.hi nf).length + P.length) rest

theorem canonHeader_pos (lo hi : List Int) (nf : Nat) : 0 < (canonHeader lo hi nf).length := by
  obtain ⟨body, hb, _⟩ := isLine_canonB lo hi nf
  unfold canonHeader
  rw [hb]; simp

theorem offsets_ge (nf : Nat) (pos : Nat) (segs : List (Entry × Bytes)) (h : OffsetsOK nf pos segs) :
    ∀ p ∈ segs, (pos : Int) ≤ p.1.offset := by
  induction segs generalizing pos with
  | nil => intro p hp; cases hp
  | cons q rest ih =>
    obtain ⟨e, P⟩ := q
    obtain ⟨h1, h2⟩ := h
    intro p hp
    rcases List.mem_cons.mp hp with rfl | hp
    · simp [h1]
    · have := ih _ h2 p hp
      have hc := canonHeader_pos e.lo e.hi nf
      omega

/-- the recorded offsets of a file increase strictly along its segments -/
theorem offsets_increasing (nf : Nat) (pos : Nat) (segs : List (Entry × Bytes)) (h : OffsetsOK nf pos segs) :
    (segs.map (·.1)).Pairwise offLt := by
  induction segs generalizing pos with
  | nil => simp
  | cons q rest ih =>
    obtain ⟨e, P⟩ := q
    obtain ⟨h1, h2⟩ := h
    simp only [List.map_cons]
    refine List.pairwise_cons.mpr ⟨?_, ih _ h2⟩
    intro y hy
    obtain ⟨p, hp, rfl⟩ := List.mem_map.mp hy
    have := offsets_ge nf _ rest h2 p hp
    have hc := canonHeader_pos e.lo e.hi nf
    unfold offLt
    omega

/-- **`mp_fun_headers` accepts every entry of a well-formed file** -/
theorem headersOK_file (nf : Nat) (segs : List (Entry × Bytes)) (pre : Bytes)
    (hg : ∀ p ∈ segs, GoodSeg nf p) (ho : OffsetsOK nf pre.length segs) :
    headersOK (pre ++ fileOf nf segs) nf (segs.map (·.1)) = true := by
  induction segs generalizing pre with
  | nil => simp [headersOK]
  | cons q rest ih =>
    obtain ⟨e, P⟩ := q
    obtain ⟨h1, h2⟩ := ho
    have hgs := hg (e, P) (by simp)
    have hone := headersOK_entry nf e pre (P ++ fileOf nf rest) hgs.lo_ne hgs.hi_ne hgs.len h1
    have hrest := ih (pre ++ canonHeader e.lo e.hi nf ++ P) (fun p hp => hg p (by simp [hp]))
      (by simpa [Nat.add_assoc] using h2)
    have e1 : pre ++ canonHeader e.lo e.hi nf ++ (P ++ fileOf nf rest) = pre ++ fileOf nf ((e, P) :: rest) := by
      simp [fileOf, List.append_assoc]
    have e2 : pre ++ canonHeader e.lo e.hi nf ++ P ++ fileOf nf rest = pre ++ fileOf nf ((e, P) :: rest) := by
      simp [fileOf, List.append_assoc]
    rw [e1] at hone
    rw [e2] at hrest
    unfold headersOK at hone hrest ⊢
    simp only [List.map_cons, List.all_cons, List.all_nil, Bool.and_true] at hone ⊢
    rw [hone, hrest]; rfl

/-! ### one level -/

/-- a well-formed level: good rows, and every binary file named by the rows is the concatenation of
    canonical FABs of the announced sizes, sitting at the recorded offsets, one per row naming the file -/
structure LevelWF (nf : Nat) (rows : List BoxRow) (files : List (String × Bytes)) : Prop where
  rows_good : ∀ r ∈ rows, r.Good
  files_ok : ∀ n ∈ dedup ((rows.map BoxRow.entry).map (·.file)), ∃ segs : List (Entry × Bytes),
      segs ≠ [] ∧ files.lookup n = some (fileOf nf segs) ∧ (∀ p ∈ segs, GoodSeg nf p) ∧ OffsetsOK nf 0 segs ∧
        ((rows.map BoxRow.entry).filter (·.file == n)).Perm (segs.map (·.1))

/-- **a well-formed level is accepted under every combination of the two binary options** -/
theorem tasteLevel_complete (nf : Nat) (rows : List BoxRow) (extra : List Bytes) (hx : ∀ l ∈ extra, NoByte NL l)
    (files : List (String × Bytes)) (h : LevelWF nf rows files) (cH cS : Bool) :
    tasteLevelOpts (renderCellHExt nf rows extra) nf files cH cS = (true, "good") := by
  unfold tasteLevelOpts
  rw [parseCellH_render_ext nf rows extra h.rows_good hx]
  simp only
  have hpres : (dedup ((rows.map BoxRow.entry).map (·.file))).any (fun n => (files.lookup n).isNone) = false := by
    rw [List.any_eq_false]
    intro n hn
    obtain ⟨segs, _, hl, _⟩ := h.files_ok n hn
    simp [hl]
  have hper : ∀ n ∈ dedup ((rows.map BoxRow.entry).map (·.file)),
      headersOK ((files.lookup n).getD []) nf (sortByOffset ((rows.map BoxRow.entry).filter (·.file == n))) = true ∧
      shapeOK ((files.lookup n).getD []) nf (sortByOffset ((rows.map BoxRow.entry).filter (·.file == n))) = true := by
    intro n hn
    obtain ⟨segs, hne, hl, hg, ho, hp⟩ := h.files_ok n hn
    rw [sortByOffset_perm_sorted _ _ (offsets_increasing nf 0 segs ho) hp, hl]
    simp only [Option.getD_some]
    constructor
    · have := headersOK_file nf segs [] hg (by simpa using ho)
      simpa using this
    · cases segs with
      | nil => exact absurd rfl hne
      | cons q eps =>
        obtain ⟨e, P⟩ := q
        exact shapeOK_complete nf e P eps hg
  have hH : ((dedup ((rows.map BoxRow.entry).map (·.file))).map fun n =>
      (n, sortByOffset ((rows.map BoxRow.entry).filter (·.file == n)), (files.lookup n).getD [])).all
        (fun x => headersOK x.2.2 nf x.2.1) = true := by
    rw [List.all_eq_true]
    intro x hx
    obtain ⟨n, hn, rfl⟩ := List.mem_map.mp hx
    exact (hper n hn).1
  have hS : ((dedup ((rows.map BoxRow.entry).map (·.file))).map fun n =>
      (n, sortByOffset ((rows.map BoxRow.entry).filter (·.file == n)), (files.lookup n).getD [])).all
        (fun x => shapeOK x.2.2 nf x.2.1) = true := by
    rw [List.all_eq_true]
    intro x hx
    obtain ⟨n, hn, rfl⟩ := List.mem_map.mp hx
    exact (hper n hn).2
  simp only [hpres, Bool.false_eq_true, if_false]
  have hH' : (List.map (fun n => (n, sortByOffset ((rows.map BoxRow.entry).filter (·.file == n)), (files.lookup n).getD []))
      (dedup ((rows.map BoxRow.entry).map (·.file)))).all (fun x => match x with | (_, es, raw) => headersOK raw nf es) = true := hH
  have hS' : (List.map (fun n => (n, sortByOffset ((rows.map BoxRow.entry).filter (·.file == n)), (files.lookup n).getD []))
      (dedup ((rows.map BoxRow.entry).map (·.file)))).all (fun x => match x with | (_, es, raw) => shapeOK raw nf es) = true := hS
  simp only [hH', hS', Bool.not_true, Bool.and_false, Bool.false_eq_true, if_false]

/-! ### the whole plotfile -/

/-- a well-formed plotfile with the levels `0 … n-1` selected: a good header content with pairwise
    distinct field names, and for each selected level a directory under the name the header states,
    holding a rendered level header (followed by any further lines: the min/max tables) and well-formed
    binary files -/
structure PltWF (H : Header.HData) (n : Nat) (dirs : List (String × LevelDir)) : Prop where
  header : H.Good
  names : H.names.Nodup
  levels : ∀ l ∈ H.levels.take n, ∃ d rows extra, dirs.lookup (String.fromUTF8! ⟨l.dir.toArray⟩) = some d ∧
      d.cellH = some (renderCellHExt H.names.length rows extra) ∧ (∀ x ∈ extra, NoByte NL x) ∧
        LevelWF H.names.length rows d.files

theorem go_complete_dirs (dirs : List (String × LevelDir)) (cH cS : Bool) (nf : Nat) (ps : List Bytes)
    (h : ∀ p ∈ ps, ∃ d rows extra, dirs.lookup (String.fromUTF8! ⟨p.toArray⟩) = some d ∧
      d.cellH = some (renderCellHExt nf rows extra) ∧ (∀ x ∈ extra, NoByte NL x) ∧ LevelWF nf rows d.files) :
    tastePlt.go dirs cH cS nf ps = (true, "good") := by
  induction ps with
  | nil => rfl
  | cons p rest ih =>
    obtain ⟨d, rows, extra, hl, hc, hx, hw⟩ := h p (by simp)
    unfold tastePlt.go
    simp only [hl, hc, tasteLevel_complete nf rows extra hx d.files hw cH cS, if_true]
    exact ih (fun q hq => h q (by simp [hq]))

/-- **C03, model level, full strength: every well-formed plotfile is reported good** - for every
    number of fields, dimensions, levels, boxes and binary files, every distribution and listing order
    of the boxes, every level limit within the header's levels, and every combination of the options
    `binary_headers` / `binary_shape` -/
theorem tastePlt_complete (H : Header.HData) (n : Nat) (dirs : List (String × LevelDir)) (h : PltWF H n dirs)
    (limit : Option Int) (hn1 : 1 ≤ n) (hn : n ≤ H.levels.length)
    (hlim : (limit = none ∧ n = H.levels.length) ∨ limit = some ((n - 1 : Nat) : Int)) (cH cS : Bool) :
    tastePlt (Header.render H) limit dirs cH cS = (true, "good") := by
  unfold tastePlt
  rw [Header.parse_render_core H h.header limit n hn1 hn hlim]
  simp only
  have hnf : (H.meta n).fields.length = H.names.length := by
    simp [Header.HData.meta, Header.tableOf_nodup H.names h.names]
  rw [hnf]
  apply go_complete_dirs
  intro p hp
  simp only [Header.HData.meta, List.mem_map] at hp
  obtain ⟨l, hl, rfl⟩ := hp
  exact h.levels l hl

/-! ### the executable well-formedness check is sound -/

theorem sort_foldl_perm (l acc : List Entry) :
    (l.foldl (fun acc e => insertSorted e acc) acc).Perm (l ++ acc) := by
  induction l generalizing acc with
  | nil => exact List.Perm.refl _
  | cons e l ih =>
    simp only [List.foldl_cons]
    refine (ih (insertSorted e acc)).trans ?_
    have : (l ++ insertSorted e acc).Perm (l ++ e :: acc) := List.Perm.append_left l (insertSorted_perm e acc)
    exact this.trans (by simpa using (List.perm_middle (l₁ := l) (l₂ := acc) (a := e)))

theorem sortByOffset_perm (l : List Entry) : (sortByOffset l).Perm l := by
  unfold sortByOffset
  simpa using sort_foldl_perm l []

theorem cutSegs_map_fst (raw : Bytes) (nf : Nat) (es : List Entry) : (cutSegs raw nf es).map (·.1) = es := by
  induction es with
  | nil => rfl
  | cons e rest ih =>
    cases rest with
    | nil => rfl
    | cons e2 rest => simp only [cutSegs, List.map_cons, ih]

theorem offsetsOKB_sound (nf : Nat) (pos : Nat) (segs : List (Entry × Bytes)) (h : offsetsOKB nf pos segs = true) :
    OffsetsOK nf pos segs := by
  induction segs generalizing pos with
  | nil => trivial
  | cons q rest ih =>
    obtain ⟨e, P⟩ := q
    simp only [offsetsOKB, Bool.and_eq_true, beq_iff_eq] at h
    exact ⟨h.1, ih _ h.2⟩

theorem goodSegB_sound (nf : Nat) (p : Entry × Bytes) (h : goodSegB nf p = true) : GoodSeg nf p := by
  unfold goodSegB at h
  simp only [Bool.and_eq_true, Bool.not_eq_true', List.isEmpty_eq_false_iff, beq_iff_eq] at h
  exact ⟨h.1.1.1, h.1.1.2, h.1.2, h.2⟩

theorem rowGoodB_sound (r : BoxRow) (h : rowGoodB r = true) : r.Good := by
  unfold rowGoodB at h
  simp only [Bool.and_eq_true, Bool.not_eq_true', List.isEmpty_eq_false_iff, List.all_eq_true] at h
  exact ⟨h.1.1.1, h.1.1.2, h.1.2, fun b hb => by simpa using h.2 b hb⟩

theorem levelWFB_sound (nf : Nat) (rows : List BoxRow) (files : List (String × Bytes))
    (h : levelWFB nf rows files = true) : LevelWF nf rows files := by
  unfold levelWFB at h
  simp only [Bool.and_eq_true, List.all_eq_true] at h
  refine ⟨fun r hr => rowGoodB_sound r (h.1 r hr), ?_⟩
  intro n hn
  have hn' := h.2 n hn
  cases hl : files.lookup n with
  | none => rw [hl] at hn'; simp at hn'
  | some raw =>
    rw [hl] at hn'
    simp only [Bool.and_eq_true, Bool.not_eq_true', List.isEmpty_eq_false_iff, beq_iff_eq, List.all_eq_true] at hn'
    obtain ⟨⟨⟨h1, h2⟩, h3⟩, h4⟩ := hn'
    refine ⟨_, h1, by rw [h2], fun p hp => goodSegB_sound nf p (h3 p hp), offsetsOKB_sound nf 0 _ h4, ?_⟩
    rw [cutSegs_map_fst]
    exact (sortByOffset_perm _).symm

theorem exists_zip_right {α β} (as : List α) (bs : List β) (hl : as.length ≤ bs.length) :
    ∀ a ∈ as, ∃ b, (a, b) ∈ as.zip bs := by
  induction as generalizing bs with
  | nil => intro a ha; cases ha
  | cons x xs ih =>
    cases bs with
    | nil => simp at hl
    | cons y ys =>
      intro a ha
      rcases List.mem_cons.mp ha with rfl | ha
      · exact ⟨y, by simp⟩
      · obtain ⟨b, hb⟩ := ih ys (by simpa using hl) a ha
        exact ⟨b, by simp [hb]⟩

theorem pltWFB_sound (H : Header.HData) (n : Nat) (lv : List (List BoxRow × List Bytes)) (header : Bytes)
    (dirs : List (String × LevelDir)) (h : pltWFB H n lv header dirs = true) :
    header = Header.render H ∧ PltWF H n dirs := by
  unfold pltWFB at h
  simp only [Bool.and_eq_true, beq_iff_eq, decide_eq_true_eq, List.all_eq_true] at h
  obtain ⟨⟨⟨⟨h1, h2⟩, h3⟩, h4⟩, h5⟩ := h
  refine ⟨h1, Header.HData.goodB_sound H h2, h3, ?_⟩
  intro l hl
  have hlen : (H.levels.take n).length ≤ lv.length := by
    rw [List.length_take]; omega
  obtain ⟨⟨rows, extra⟩, hz⟩ := exists_zip_right _ lv hlen l hl
  have := h5 _ hz
  simp only at this
  cases hd : dirs.lookup (String.fromUTF8! ⟨l.dir.toArray⟩) with
  | none => rw [hd] at this; simp at this
  | some d =>
    rw [hd] at this
    simp only at this
    cases hc : d.cellH with
    | none => rw [hc] at this; simp at this
    | some c =>
      rw [hc] at this
      simp only [Bool.and_eq_true, beq_iff_eq, List.all_eq_true] at this
      refine ⟨d, rows, extra, rfl, by rw [hc, this.1.1], ?_, levelWFB_sound _ _ _ this.2⟩
      intro x hx b hb
      simpa using this.1.2 x hx b hb

/-- **what the driver's well-formedness check certifies**: a plotfile (as bytes) that passes `pltWFB`
    against a claimed content is reported good by the validator model, for every admissible level
    limit and both binary options in every combination -/
theorem tastePlt_of_wfB (H : Header.HData) (n : Nat) (lv : List (List BoxRow × List Bytes)) (header : Bytes)
    (dirs : List (String × LevelDir)) (h : pltWFB H n lv header dirs = true)
    (limit : Option Int) (hn1 : 1 ≤ n) (hn : n ≤ H.levels.length)
    (hlim : (limit = none ∧ n = H.levels.length) ∨ limit = some ((n - 1 : Nat) : Int)) (cH cS : Bool) :
    tastePlt header limit dirs cH cS = (true, "good") := by
  obtain ⟨he, hw⟩ := pltWFB_sound H n lv header dirs h
  rw [he]
  exact tastePlt_complete H n dirs hw limit hn1 hn hlim cH cS

end Taste
