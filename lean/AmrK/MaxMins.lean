import AmrK.CellHRewrite
/-! The min / max tables of a level header as the reader takes them with `maxmins=True` (`read_cell_headers`): two lines
    skipped, one row per box (`line.split(',')[:-1]`), twice; then `zip(fields, np.transpose(rows))`: the `k`-th column
    under the `k`-th field.  Tokens stay opaque (their float value is compared by the oracle).  Core-only. -/
namespace MaxMins
open Py

def readRows : Nat → List Bytes → Option (List (List Bytes) × List Bytes)
  | 0, rest => some ([], rest)
  | _ + 1, [] => none
  | k + 1, l :: rest => (readRows k rest).map fun (rows, r) => ((splitOn 44 l).dropLast :: rows, r)

/-- the lines after the `FabOnDisk:` table -/
def readTables (n : Nat) : List Bytes → Option (List (List Bytes) × List (List Bytes))
  | _ :: _ :: rest => do
    let (mins, r1) ← readRows n rest
    match r1 with
    | _ :: _ :: r2 => do
      let (maxs, _) ← readRows n r2
      pure (mins, maxs)
    | _ => none
  | _ => none

/-- column `k` of a table: the value of field `k` for every box, in box order -/
def column (rows : List (List Bytes)) (k : Nat) : List Bytes := rows.map (·.getD k [])

/-- `zip(fields, np.transpose(rows))` -/
def byField (names : List Bytes) (rows : List (List Bytes)) : List (Bytes × List Bytes) :=
  names.zipIdx.map fun p => (p.1, column rows p.2)

end MaxMins
