import AmrK.Codec
/-! `parse ∘ render = id` for the level header (`Cell_H` up to the FabOnDisk table). -/


namespace Py

theorem splitWs_go_sepJoin_rest (l : List (Bytes × UInt8)) (acc : List Bytes) (rest : Bytes)
    (h : ∀ p ∈ l, p.1 ≠ [] ∧ NoSpace p.1 ∧ isSpace p.2 = true) :
    splitWs.go [] acc (sepJoin l ++ rest) = splitWs.go [] ((l.map (·.1)).reverse ++ acc) rest := by
  induction l generalizing acc with
  | nil => rfl
  | cons p l ih =>
    obtain ⟨t, s⟩ := p
    obtain ⟨hne, hns, hs⟩ := h (t, s) (by simp)
    simp only [sepJoin, List.append_assoc, List.cons_append]
    rw [splitWs_go_token t hns [] acc, splitWs_go_space s hs]
    have : (t.reverse ++ []).isEmpty = false := by
      cases t with
      | nil => exact absurd rfl hne
      | cons b t => simp
    simp only [this, Bool.false_eq_true, if_false]
    rw [ih _ (fun q hq => h q (by simp [hq]))]
    simp

/-- tokens separated by single spaces, the last one not followed by anything -/
theorem splitWs_sepJoin_last (l : List (Bytes × UInt8)) (t : Bytes)
    (h : ∀ p ∈ l, p.1 ≠ [] ∧ NoSpace p.1 ∧ isSpace p.2 = true) (hne : t ≠ []) (hns : NoSpace t) :
    splitWs (sepJoin l ++ t) = l.map (·.1) ++ [t] := by
  unfold splitWs
  rw [splitWs_go_sepJoin_rest l [] t h]
  have := splitWs_go_token t hns [] ((l.map (·.1)).reverse ++ []) []
  simp only [List.append_nil] at this ⊢
  rw [this]
  unfold splitWs.go
  simp [hne]

end Py

namespace Taste
open Py

/-- `((lo) (hi) (0,…,0))` -/
def boxLine (lo hi : List Int) : Bytes :=
  sepJoin [([40, 40] ++ intsB lo ++ [41], 32), ([40] ++ intsB hi ++ [41], 32)] ++ ([40] ++ zerosB hi.length ++ [41, 41])

/-- `FabOnDisk: <file> <offset>` -/
def fabLine (file : Bytes) (off : Nat) : Bytes :=
  sepJoin [(ofString "FabOnDisk:", 32), (file, 32)] ++ natBytes off

/-- `(<n> 0` -/
def countLine (n : Nat) : Bytes := sepJoin [([40] ++ natBytes n, 32)] ++ [48]

theorem noSpace_of_clean (s : Bytes) (h : Clean s) : NoSpace s := fun b hb => (h b hb).1

theorem noSpace_natBytes (n : Nat) : NoSpace (natBytes n) := noSpace_digits _ (natBytes_spec n).1

theorem natBytes_ne_nil (n : Nat) : natBytes n ≠ [] := (natBytes_spec n).2.1

theorem splitWs_boxLine (lo hi : List Int) :
    splitWs (boxLine lo hi) = [[40, 40] ++ intsB lo ++ [41], [40] ++ intsB hi ++ [41], [40] ++ zerosB hi.length ++ [41, 41]] := by
  unfold boxLine
  have c1 : Clean ([40, 40] ++ intsB lo ++ [41]) :=
    clean_append _ _ (clean_append _ _ (by decide) (clean_intsTok _ (intsTok_intsB lo))) (by decide)
  have c2 : Clean ([40] ++ intsB hi ++ [41]) :=
    clean_append _ _ (clean_append _ _ (by decide) (clean_intsTok _ (intsTok_intsB hi))) (by decide)
  have c3 : Clean ([40] ++ zerosB hi.length ++ [41, 41]) :=
    clean_append _ _ (clean_append _ _ (by decide) (clean_intsTok _ (intsTok_zerosB _))) (by decide)
  rw [splitWs_sepJoin_last _ _ _ (by simp) (noSpace_of_clean _ c3)]
  · rfl
  · intro p hp
    simp only [List.mem_cons, List.mem_nil_iff, or_false] at hp
    rcases hp with rfl | rfl
    · exact ⟨by simp, noSpace_of_clean _ c1, space32⟩
    · exact ⟨by simp, noSpace_of_clean _ c2, space32⟩

theorem clean_parens_lo (lo : List Int) : remove 41 (remove 40 ([40, 40] ++ intsB lo ++ [41])) = intsB lo := by
  simp only [remove_append]
  rw [remove_noByte 40 (intsB lo) (noByte40_ints _ (intsTok_intsB lo)),
    remove_noByte 41 (intsB lo) (noByte41_ints _ (intsTok_intsB lo))]
  have h1 : remove 41 (remove 40 [40, 40]) = [] := by decide
  have h2 : remove 41 (remove 40 [41]) = [] := by decide
  rw [h1, h2]; simp

theorem clean_parens_hi (hi : List Int) : remove 41 (remove 40 ([40] ++ intsB hi ++ [41])) = intsB hi := by
  simp only [remove_append]
  rw [remove_noByte 40 (intsB hi) (noByte40_ints _ (intsTok_intsB hi)),
    remove_noByte 41 (intsB hi) (noByte41_ints _ (intsTok_intsB hi))]
  have h1 : remove 41 (remove 40 [40]) = [] := by decide
  have h2 : remove 41 (remove 40 [41]) = [] := by decide
  rw [h1, h2]; simp

theorem splitWs_fabLine (file : Bytes) (off : Nat) (hf : file ≠ []) (hs : NoSpace file) :
    splitWs (fabLine file off) = [ofString "FabOnDisk:", file, natBytes off] := by
  unfold fabLine
  rw [splitWs_sepJoin_last _ _ _ (natBytes_ne_nil off) (noSpace_natBytes off)]
  · rfl
  · intro p hp
    simp only [List.mem_cons, List.mem_nil_iff, or_false] at hp
    rcases hp with rfl | rfl
    · refine ⟨by decide +kernel, ?_, space32⟩
      have : Clean (ofString "FabOnDisk:") := by decide +kernel
      exact noSpace_of_clean _ this
    · exact ⟨hf, hs, space32⟩

theorem head_countLine (n : Nat) : (splitWs (countLine n)).head? = some ([40] ++ natBytes n) := by
  unfold countLine
  rw [splitWs_sepJoin_last _ _ _ (by simp) (by intro b hb; simp at hb; subst hb; decide)]
  · rfl
  · intro p hp
    simp only [List.mem_cons, List.mem_nil_iff, or_false] at hp
    subst hp
    refine ⟨by simp, ?_, space32⟩
    intro b hb
    simp only [List.cons_append, List.nil_append, List.mem_cons] at hb
    rcases hb with rfl | hb
    · decide
    · exact noSpace_natBytes n b hb

theorem remove40_count (n : Nat) : remove 40 ([40] ++ natBytes n) = natBytes n := by
  rw [remove_append, remove_single, List.nil_append]
  apply remove_noByte
  intro b hb e
  subst e
  have := (natBytes_spec n).1 40 hb
  revert this; decide

end Taste

namespace Taste
open Py

/-- what a level header states about one box -/
structure BoxRow where
  lo : List Int
  hi : List Int
  file : Bytes
  offset : Nat

def BoxRow.Good (r : BoxRow) : Prop := r.lo ≠ [] ∧ r.hi ≠ [] ∧ r.file ≠ [] ∧ NoSpace r.file

def BoxRow.entry (r : BoxRow) : Entry := ⟨r.lo, r.hi, String.fromUTF8! ⟨r.file.toArray⟩, (r.offset : Int)⟩

theorem parseBoxes_render (line : Nat → Bytes) (rows : List BoxRow) (hg : ∀ r ∈ rows, r.Good) :
    ∀ i, (∀ k r, rows[k]? = some r → line (i + k) = boxLine r.lo r.hi) →
      parseBoxes line i rows.length = some (rows.map fun r => (r.lo, r.hi)) := by
  induction rows with
  | nil => intro i _; rfl
  | cons r rows ih =>
    intro i h
    have h0 := h 0 r rfl
    simp only [Nat.add_zero] at h0
    obtain ⟨hlo, hhi, _, _⟩ := hg r (by simp)
    simp only [List.length_cons, parseBoxes, h0, splitWs_boxLine, clean_parens_lo, clean_parens_hi,
      intList_intsB r.lo hlo, intList_intsB r.hi hhi]
    have := ih (fun r' hr' => hg r' (by simp [hr'])) (i + 1) (by
      intro k r' hk
      have := h (k + 1) r' (by simpa using hk)
      rw [← this]; congr 1; omega)
    rw [this]
    rfl

theorem parseFabs_render (line : Nat → Bytes) (rows : List BoxRow) (hg : ∀ r ∈ rows, r.Good) :
    ∀ i, (∀ k r, rows[k]? = some r → line (i + k) = fabLine r.file r.offset) →
      parseFabs line i (rows.map fun r => (r.lo, r.hi)) = some (rows.map BoxRow.entry) := by
  induction rows with
  | nil => intro i _; rfl
  | cons r rows ih =>
    intro i h
    have h0 := h 0 r rfl
    simp only [Nat.add_zero] at h0
    obtain ⟨_, _, hf, hs⟩ := hg r (by simp)
    simp only [List.map_cons, parseFabs, h0, splitWs_fabLine r.file r.offset hf hs, pyInt_natBytes]
    have := ih (fun r' hr' => hg r' (by simp [hr'])) (i + 1) (by
      intro k r' hk
      have := h (k + 1) r' (by simpa using hk)
      rw [← this]; congr 1; omega)
    rw [this]
    rfl

end Taste

namespace Taste
open Py

def renderLines (nf : Nat) (rows : List BoxRow) : List Bytes :=
  [[49], [49], natBytes nf, [48], countLine rows.length] ++
    (rows.map (fun r => boxLine r.lo r.hi) ++
      ([[41], natBytes rows.length] ++ (rows.map (fun r => fabLine r.file r.offset) ++ [[]])))

/-- the text of a level header (up to the FabOnDisk table; the min/max tables follow) -/
def renderCellH (nf : Nat) (rows : List BoxRow) : Bytes := joinSep NL (renderLines nf rows)

theorem getD_append_left' {α} (l1 l2 : List α) (i : Nat) (d : α) (h : i < l1.length) :
    (l1 ++ l2).getD i d = l1.getD i d := by
  simp [List.getD, List.getElem?_append_left h]

theorem getD_append_right' {α} (l1 l2 : List α) (i : Nat) (d : α) (h : l1.length ≤ i) :
    (l1 ++ l2).getD i d = l2.getD (i - l1.length) d := by
  simp [List.getD, List.getElem?_append_right h]

theorem line_box (nf : Nat) (rows : List BoxRow) (k : Nat) (r : BoxRow) (hk : rows[k]? = some r) :
    (renderLines nf rows).getD (5 + k) [] = boxLine r.lo r.hi := by
  unfold renderLines
  have hlt : k < rows.length := by
    rcases Nat.lt_or_ge k rows.length with h | h
    · exact h
    · rw [List.getElem?_eq_none h] at hk; cases hk
  rw [getD_append_right' _ _ _ _ (by simp), getD_append_left' _ _ _ _ (by simp; omega)]
  simp [List.getD, hk]

theorem line_count2 (nf : Nat) (rows : List BoxRow) :
    (renderLines nf rows).getD (6 + rows.length) [] = natBytes rows.length := by
  unfold renderLines
  rw [getD_append_right' _ _ _ _ (by simp; omega), getD_append_right' _ _ _ _ (by simp; omega)]
  have : 6 + rows.length - [[49], [49], natBytes nf, [48], countLine rows.length].length
      - (rows.map (fun r => boxLine r.lo r.hi)).length = 1 := by simp; omega
  rw [this]; rfl

theorem line_fab (nf : Nat) (rows : List BoxRow) (k : Nat) (r : BoxRow) (hk : rows[k]? = some r) :
    (renderLines nf rows).getD (7 + rows.length + k) [] = fabLine r.file r.offset := by
  unfold renderLines
  have hlt : k < rows.length := by
    rcases Nat.lt_or_ge k rows.length with h | h
    · exact h
    · rw [List.getElem?_eq_none h] at hk; cases hk
  rw [getD_append_right' _ _ _ _ (by simp; omega), getD_append_right' _ _ _ _ (by simp; omega),
    getD_append_right' _ _ _ _ (by simp; omega), getD_append_left' _ _ _ _ (by simp; omega)]
  have : 7 + rows.length + k - [[49], [49], natBytes nf, [48], countLine rows.length].length
      - (rows.map (fun r => boxLine r.lo r.hi)).length - [[41], natBytes rows.length].length = k := by simp; omega
  rw [this]
  simp [List.getD, hk]

end Taste

namespace Taste
open Py

theorem noNL_of_noSpace (s : Bytes) (h : NoSpace s) : NoByte NL s := by
  intro b hb e
  have := h b hb
  rw [e] at this
  revert this; decide

theorem noNL_append (a b : Bytes) (ha : NoByte NL a) (hb : NoByte NL b) : NoByte NL (a ++ b) := by
  intro x hx
  rcases List.mem_append.mp hx with h | h
  · exact ha x h
  · exact hb x h

theorem noNL_sepJoin (l : List (Bytes × UInt8)) (h : ∀ p ∈ l, NoByte NL p.1 ∧ p.2 ≠ NL) : NoByte NL (sepJoin l) := by
  induction l with
  | nil => intro b hb; cases hb
  | cons p l ih =>
    obtain ⟨t, s⟩ := p
    simp only [sepJoin]
    intro b hb
    rcases List.mem_append.mp hb with h1 | h1
    · exact (h (t, s) (by simp)).1 b h1
    · rcases List.mem_cons.mp h1 with rfl | h2
      · exact (h (t, b) (by simp)).2
      · exact ih (fun q hq => h q (by simp [hq])) b h2

theorem sp_ne_nl : (32 : UInt8) ≠ NL := by decide

theorem noNL_boxLine (lo hi : List Int) : NoByte NL (boxLine lo hi) := by
  unfold boxLine
  have c1 : Clean ([40, 40] ++ intsB lo ++ [41]) :=
    clean_append _ _ (clean_append _ _ (by decide) (clean_intsTok _ (intsTok_intsB lo))) (by decide)
  have c2 : Clean ([40] ++ intsB hi ++ [41]) :=
    clean_append _ _ (clean_append _ _ (by decide) (clean_intsTok _ (intsTok_intsB hi))) (by decide)
  have c3 : Clean ([40] ++ zerosB hi.length ++ [41, 41]) :=
    clean_append _ _ (clean_append _ _ (by decide) (clean_intsTok _ (intsTok_zerosB _))) (by decide)
  apply noNL_append
  · apply noNL_sepJoin
    intro p hp
    simp only [List.mem_cons, List.mem_nil_iff, or_false] at hp
    rcases hp with rfl | rfl
    · exact ⟨noNL_of_noSpace _ (noSpace_of_clean _ c1), sp_ne_nl⟩
    · exact ⟨noNL_of_noSpace _ (noSpace_of_clean _ c2), sp_ne_nl⟩
  · exact noNL_of_noSpace _ (noSpace_of_clean _ c3)

theorem noNL_fabLine (file : Bytes) (off : Nat) (hs : NoSpace file) : NoByte NL (fabLine file off) := by
  unfold fabLine
  apply noNL_append
  · apply noNL_sepJoin
    intro p hp
    simp only [List.mem_cons, List.mem_nil_iff, or_false] at hp
    rcases hp with rfl | rfl
    · refine ⟨?_, by decide⟩
      have : Clean (ofString "FabOnDisk:") := by decide +kernel
      exact noNL_of_noSpace _ (noSpace_of_clean _ this)
    · exact ⟨noNL_of_noSpace _ hs, sp_ne_nl⟩
  · exact noNL_of_noSpace _ (noSpace_natBytes off)

theorem noNL_countLine (n : Nat) : NoByte NL (countLine n) := by
  unfold countLine
  apply noNL_append
  · apply noNL_sepJoin
    intro p hp
    simp only [List.mem_cons, List.mem_nil_iff, or_false] at hp
    subst hp
    refine ⟨noNL_append _ _ (by intro b hb; simp at hb; subst hb; decide) (noNL_of_noSpace _ (noSpace_natBytes n)), sp_ne_nl⟩
  · intro b hb; simp at hb; subst hb; decide

theorem noNL_lines (nf : Nat) (rows : List BoxRow) (hg : ∀ r ∈ rows, r.Good) :
    ∀ l ∈ renderLines nf rows, NoByte NL l := by
  intro l hl
  unfold renderLines at hl
  simp only [List.mem_append, List.mem_cons, List.mem_map, List.mem_nil_iff, or_false] at hl
  rcases hl with (rfl | rfl | rfl | rfl | rfl) | ⟨r, _, rfl⟩ | (rfl | rfl) | ⟨r, hr, rfl⟩ | rfl
  · intro b hb; simp at hb; subst hb; decide
  · intro b hb; simp at hb; subst hb; decide
  · exact noNL_of_noSpace _ (noSpace_natBytes nf)
  · intro b hb; simp at hb; subst hb; decide
  · exact noNL_countLine _
  · exact noNL_boxLine _ _
  · intro b hb; simp at hb; subst hb; decide
  · exact noNL_of_noSpace _ (noSpace_natBytes _)
  · exact noNL_fabLine _ _ (hg r hr).2.2.2
  · intro b hb; cases hb

/-- **`parse ∘ render = id` for the level header**: the text a writer prints for `rows` (any number of
    boxes, any dimension, any file names without whitespace, any offsets) parses back to exactly
    those index ranges, files and offsets. -/
theorem parseCellH_render (nf : Nat) (rows : List BoxRow) (hg : ∀ r ∈ rows, r.Good) :
    parseCellH (renderCellH nf rows) nf = .ok (rows.map BoxRow.entry) := by
  unfold parseCellH renderCellH
  rw [splitOn_joinSep NL (renderLines nf rows) (by unfold renderLines; simp) (noNL_lines nf rows hg)]
  have h2 : (renderLines nf rows).getD 2 [] = natBytes nf := rfl
  have h4 : (renderLines nf rows).getD 4 [] = countLine rows.length := rfl
  simp only [h2, h4, pyInt_natBytes, head_countLine, remove40_count, Int.toNat_natCast]
  rw [parseBoxes_render _ rows hg 5 (fun k r hk => line_box nf rows k r hk)]
  simp only [line_count2, pyInt_natBytes]
  rw [parseFabs_render _ rows hg (7 + rows.length) (fun k r hk => line_fab nf rows k r hk)]
  simp

/-- the whole `Cell_H` file: the rendered part followed by further lines (the min/max tables) -/
def renderCellHExt (nf : Nat) (rows : List BoxRow) (extra : List Bytes) : Bytes :=
  joinSep NL (renderLines nf rows ++ extra)

theorem renderLines_length (nf : Nat) (rows : List BoxRow) : (renderLines nf rows).length = 8 + 2 * rows.length := by
  unfold renderLines; simp; omega

/-- **`parse ∘ render = id` for the level header followed by any further lines** (the reader only
    looks at the lines up to the FabOnDisk table) -/
theorem parseCellH_render_ext (nf : Nat) (rows : List BoxRow) (extra : List Bytes) (hg : ∀ r ∈ rows, r.Good)
    (hx : ∀ l ∈ extra, NoByte NL l) :
    parseCellH (renderCellHExt nf rows extra) nf = .ok (rows.map BoxRow.entry) := by
  unfold parseCellH renderCellHExt
  rw [splitOn_joinSep NL (renderLines nf rows ++ extra) (by unfold renderLines; simp)
    (fun l hl => by
      rcases List.mem_append.mp hl with h | h
      · exact noNL_lines nf rows hg l h
      · exact hx l h)]
  have hlen := renderLines_length nf rows
  have ext : ∀ i, i < 8 + 2 * rows.length →
      (renderLines nf rows ++ extra).getD i [] = (renderLines nf rows).getD i [] :=
    fun i hi => getD_append_left' _ _ _ _ (by omega)
  have h2 : (renderLines nf rows ++ extra).getD 2 [] = natBytes nf := by rw [ext 2 (by omega)]; rfl
  have h4 : (renderLines nf rows ++ extra).getD 4 [] = countLine rows.length := by rw [ext 4 (by omega)]; rfl
  simp only [h2, h4, pyInt_natBytes, head_countLine, remove40_count, Int.toNat_natCast]
  rw [parseBoxes_render _ rows hg 5 (fun k r hk => by
    have hlt : k < rows.length := by
      rcases Nat.lt_or_ge k rows.length with h | h
      · exact h
      · rw [List.getElem?_eq_none h] at hk; cases hk
    rw [ext (5 + k) (by omega)]; exact line_box nf rows k r hk)]
  have h6 : (renderLines nf rows ++ extra).getD (6 + rows.length) [] = natBytes rows.length := by
    rw [ext _ (by omega)]; exact line_count2 nf rows
  simp only [h6, pyInt_natBytes]
  rw [parseFabs_render _ rows hg (7 + rows.length) (fun k r hk => by
    have hlt : k < rows.length := by
      rcases Nat.lt_or_ge k rows.length with h | h
      · exact h
      · rw [List.getElem?_eq_none h] at hk; cases hk
    rw [ext (7 + rows.length + k) (by omega)]; exact line_fab nf rows k r hk)]
  simp

end Taste
