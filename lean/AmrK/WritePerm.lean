import AmrK.Basic
/-! C10 / C12: the array built from the per-file results of one level does not depend on the order in
    which they arrive — any permutation of pairwise-disjoint region writes gives the same array. -/
namespace Probe

def PairwiseDisjoint : List ((Nat → Bool) × Nat) → Prop
  | [] => True
  | w :: ws => (∀ w' ∈ ws, ∀ i, ¬ (w.1 i = true ∧ w'.1 i = true)) ∧ PairwiseDisjoint ws

theorem disjoint_perm {l l' : List ((Nat → Bool) × Nat)} (p : l.Perm l') (h : PairwiseDisjoint l) : PairwiseDisjoint l' := by
  induction p with
  | nil => exact h
  | cons x _ ih =>
    obtain ⟨h1, h2⟩ := h
    exact ⟨fun w' hw' => h1 w' ((List.Perm.mem_iff (by assumption)).mpr hw'), ih h2⟩
  | swap x y l =>
    obtain ⟨h1, h2, h3⟩ := h
    refine ⟨?_, ?_, h3⟩
    · intro w' hw' i
      rcases List.mem_cons.mp hw' with rfl | hw'
      · intro ⟨a, b⟩; exact h1 x (by simp) i ⟨b, a⟩
      · exact h2 w' hw' i
    · intro w' hw' i
      exact h1 w' (by simp [hw']) i
  | trans _ _ ih1 ih2 => exact ih2 (ih1 h)

/-- **any two arrival orders of the results of one level give the same array** -/
theorem foldl_write_perm {l l' : List ((Nat → Bool) × Nat)} (p : l.Perm l') (h : PairwiseDisjoint l)
    (a : Nat → Option Nat) : l.foldl write a = l'.foldl write a := by
  induction p generalizing a with
  | nil => rfl
  | cons x _ ih => exact ih h.2 (write a x)
  | swap x y l =>
    simp only [List.foldl_cons]
    obtain ⟨h1, _, _⟩ := h
    rw [write_comm a y x (fun i ⟨hy, hx⟩ => h1 x (by simp) i ⟨hy, hx⟩)]
  | trans p1 _ ih1 ih2 => rw [ih1 h a, ih2 (disjoint_perm p1 h) a]

end Probe
