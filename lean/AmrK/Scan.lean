import AmrK.TasteComplete
import AmrK.ReaderRProofs
/-! Probe: the sequential file scan behind `for box in pck[field][level]` yields every FAB of a
    well-formed file exactly once, in disk order, and then stops (C15 core). -/
namespace Scan
open Py Taste Reader ReaderR

/-- `mp_read_bfile_single_field`: read header, skip `f` components, read one, skip the rest;
    any failure (`except: break`) ends the scan.  `fuel` bounds the number of rounds. -/
def scan (raw : Bytes) (f : Nat) : Nat → Nat → List Bytes
  | 0, _ => []
  | fuel + 1, pos =>
    let line := lineOf (raw.drop pos)
    match parseFabHeader line with
    | none => []
    | some h =>
      let n := ncells h
      if n ≤ 0 ∨ h.nf ≤ (f : Int) then [] else
      let nn := n.toNat
      let start := pos + line.length + nn * f * 8
      let data := (raw.drop start).take (nn * 8)
      if data.length < nn * 8 then [] else
      data :: scan raw f fuel (pos + line.length + nn * h.nf.toNat * 8)

/-- the cell count announced by a canonical header, as a natural number -/
def cellsOf (e : Entry) : Nat := (ncells (⟨e.lo, e.hi, 0⟩ : Hdr)).toNat

structure GoodFab (nf : Nat) (p : Entry × Bytes) : Prop where
  lo_ne : p.1.lo ≠ []
  hi_ne : p.1.hi ≠ []
  len : p.1.lo.length = p.1.hi.length
  cells_pos : 0 < ncells (⟨p.1.lo, p.1.hi, 0⟩ : Hdr)
  size : p.2.length = cellsOf p.1 * nf * 8

theorem ncells_nf (lo hi : List Int) (a b : Int) : ncells (⟨lo, hi, a⟩ : Hdr) = ncells (⟨lo, hi, b⟩ : Hdr) := rfl

/-- **C15 core.**  Scanning a well-formed file for field `f` returns, in disk order, the `f`-th
    component block of every FAB — each exactly once — and stops at end of file. -/
theorem scan_fileOf (nf f : Nat) (hf : f < nf) :
    ∀ (eps : List (Entry × Bytes)) (pre : Bytes) (fuel : Nat), eps.length < fuel →
      (∀ p ∈ eps, GoodFab nf p) →
      scan (pre ++ fileOf nf eps) f fuel pre.length
        = eps.map fun p => block p.2 (cellsOf p.1) f := by
  intro eps
  induction eps with
  | nil =>
    intro pre fuel hfuel _
    cases fuel with
    | zero => omega
    | succ fuel =>
      unfold scan
      have : (pre ++ fileOf nf []).drop pre.length = [] := by simp [fileOf]
      simp only [this]
      have hp : parseFabHeader (lineOf []) = none := by
        unfold lineOf parseFabHeader
        simp [isAscii, splitWs, splitWs.go]
      simp [hp]
  | cons q eps ih =>
    intro pre fuel hfuel hg
    obtain ⟨e, P⟩ := q
    have g := hg (e, P) List.mem_cons_self
    cases fuel with
    | zero => omega
    | succ fuel =>
      have hcan : canonHeader e.lo e.hi nf = canonB e.lo e.hi nf := rfl
      have hdrop : (pre ++ fileOf nf ((e, P) :: eps)).drop pre.length
          = canonB e.lo e.hi nf ++ (P ++ fileOf nf eps) := by
        simp [fileOf, hcan, List.append_assoc]
      have hline : lineOf (canonB e.lo e.hi nf ++ (P ++ fileOf nf eps)) = canonB e.lo e.hi nf :=
        lineOf_line _ _ (isLine_canonB e.lo e.hi nf)
      unfold scan
      simp only [hdrop, hline, parse_canonB e.lo e.hi nf g.lo_ne g.hi_ne g.len]
      have hcp : 0 < ncells (⟨e.lo, e.hi, 0⟩ : Hdr) := g.cells_pos
      have hcells : ncells (⟨e.lo, e.hi, (nf : Int)⟩ : Hdr) = ((cellsOf e : Nat) : Int) := by
        unfold cellsOf
        rw [ncells_nf e.lo e.hi (nf : Int) 0]
        omega
      have hcpos : 0 < cellsOf e := by
        unfold cellsOf; omega
      have hcond : ¬ (ncells (⟨e.lo, e.hi, (nf : Int)⟩ : Hdr) ≤ 0 ∨ ((nf : Int)) ≤ (f : Int)) := by
        rw [hcells]; omega
      rw [if_neg hcond]
      simp only [hcells, Int.toNat_natCast]
      -- the component block
      have hsz : P.length = cellsOf e * nf * 8 := g.size
      have hroom : cellsOf e * f * 8 + cellsOf e * 8 ≤ P.length := by
        rw [hsz]
        have : cellsOf e * (f + 1) ≤ cellsOf e * nf := Nat.mul_le_mul_left _ hf
        have e1 : cellsOf e * f * 8 + cellsOf e * 8 = cellsOf e * (f + 1) * 8 := by
          rw [Nat.mul_add, Nat.mul_one, Nat.add_mul]
        rw [e1]; exact Nat.mul_le_mul_right 8 this
      have hd2 : (pre ++ fileOf nf ((e, P) :: eps)).drop
            (pre.length + (canonB e.lo e.hi nf).length + cellsOf e * f * 8)
          = P.drop (cellsOf e * f * 8) ++ fileOf nf eps := by
        have := Reader.drop_prefix (pre ++ canonB e.lo e.hi nf) P (fileOf nf eps) (cellsOf e * f * 8) (by omega)
        simpa [fileOf, hcan, List.append_assoc, Nat.add_assoc] using this
      rw [hd2]
      have htake : (P.drop (cellsOf e * f * 8) ++ fileOf nf eps).take (cellsOf e * 8)
          = (P.drop (cellsOf e * f * 8)).take (cellsOf e * 8) := by
        apply List.take_append_of_le_length
        simp only [List.length_drop]; omega
      rw [htake]
      have hlenb : ((P.drop (cellsOf e * f * 8)).take (cellsOf e * 8)).length = cellsOf e * 8 := by
        simp only [List.length_take, List.length_drop]; omega
      simp only [hlenb, Nat.lt_irrefl, if_false, List.map_cons]
      congr 1
      · unfold block
        have : f * (cellsOf e * 8) = cellsOf e * f * 8 := by ac_rfl
        rw [this]
      · -- the rest of the file
        have hnext : pre.length + (canonB e.lo e.hi nf).length + cellsOf e * nf * 8
            = (pre ++ canonB e.lo e.hi nf ++ P).length := by
          simp only [List.length_append]; omega
        rw [hnext]
        have hraw : pre ++ fileOf nf ((e, P) :: eps) = (pre ++ canonB e.lo e.hi nf ++ P) ++ fileOf nf eps := by
          simp [fileOf, hcan, List.append_assoc]
        rw [hraw]
        exact ih (pre ++ canonB e.lo e.hi nf ++ P) fuel (by simp at hfuel; omega)
          (fun p hp => hg p (List.mem_cons_of_mem _ hp))

end Scan
