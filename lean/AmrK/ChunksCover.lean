import AmrK.Chunks
/-! C16: the repaired chunking of `write_cell_data_at_level` writes every listed box to exactly one
    binary file: `for cfile, i in zip(fnames, range(0, n, chunk)): boxes[i : i + chunk]`. -/
namespace Chunks

/-- start indices `range(0, n, chunk)` -/
def starts (n chunk : Nat) : List Nat := (List.range (cdiv n chunk)).map (· * chunk)

/-- the chunk starting at `i`: indices `i … min(i+chunk, n) - 1` (Python slice `[i : i + chunk]`) -/
def chunkAt (n chunk i : Nat) : List Nat := (List.range (min (i + chunk) n - i)).map (· + i)

/-- what is written: one chunk per file name, as many as `zip` keeps -/
def written (n chunk names : Nat) : List (List Nat) := ((starts n chunk).take names).map (chunkAt n chunk)

theorem range_split (a b : Nat) (h : a ≤ b) : List.range b = List.range a ++ (List.range (b - a)).map (· + a) := by
  have : b = a + (b - a) := by omega
  conv => lhs; rw [this, List.range_add]
  congr 1
  apply List.map_congr_left
  intro x _; omega

theorem flatten_chunks (n chunk : Nat) (hc : 0 < chunk) :
    ∀ k, k ≤ cdiv n chunk → (((List.range k).map (· * chunk)).map (chunkAt n chunk)).flatten = List.range (min (k * chunk) n) := by
  intro k
  induction k with
  | zero => intro _; simp
  | succ k ih =>
    intro hk
    rw [List.range_succ, List.map_append, List.map_append, List.flatten_append, ih (by omega)]
    simp only [List.map_cons, List.map_nil, List.flatten_cons, List.flatten_nil, List.append_nil]
    -- k < cdiv n chunk, so k * chunk < n
    have hlt : k * chunk < n := by
      unfold cdiv at hk
      have h1 : k < (n + chunk - 1) / chunk := by omega
      have h2 := (Nat.lt_div_iff_mul_lt hc).mp h1
      omega
    have hmin : min (k * chunk) n = k * chunk := by omega
    rw [hmin]
    unfold chunkAt
    have hle : k * chunk ≤ min ((k + 1) * chunk) n := by
      have : (k + 1) * chunk = k * chunk + chunk := by rw [Nat.add_mul]; omega
      omega
    have e : min (k * chunk + chunk) n = min ((k + 1) * chunk) n := by
      have : (k + 1) * chunk = k * chunk + chunk := by rw [Nat.add_mul]; omega
      rw [this]
    rw [e]
    exact (range_split (k * chunk) (min ((k + 1) * chunk) n) hle).symm

/-- **every box index `0 … n-1` is written exactly once, in order**, whenever there are at least as
    many file names as chunks -/
theorem written_covers (n chunk names : Nat) (hc : 0 < chunk) (hn : cdiv n chunk ≤ names) :
    (written n chunk names).flatten = List.range n := by
  unfold written starts
  rw [List.take_of_length_le (by simp; exact hn)]
  rw [flatten_chunks n chunk hc (cdiv n chunk) (Nat.le_refl _)]
  have h1 := le_mul_cdiv n chunk hc
  rw [Nat.mul_comm] at h1
  have : min (cdiv n chunk * chunk) n = n := by omega
  rw [this]

/-- **the repaired chunk size** `max ⌈n / nfiles⌉ 1` with the `nfiles + 1` names the code prepares
    writes every box exactly once -/
theorem repaired_covers (n nfiles : Nat) (hf : 0 < nfiles) :
    (written n (max (cdiv n nfiles) 1) (nfiles + 1)).flatten = List.range n :=
  written_covers n _ _ (by omega) (Nat.le_trans (chunks_le n nfiles hf) (by omega))

end Chunks
