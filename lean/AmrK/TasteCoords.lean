import AmrK.Coords
/-! taste's optional box-coordinate validation (`taste_box_coordinates`) over exact rationals: per level and direction the
    grid of cell centres is `np.linspace(lo + dx/2, hi - dx/2, n)`; a box with index range `[i0, i1]` must have physical
    bounds `np.isclose` to `grid[i0] - dx/2` and `grid[i1] + dx/2`.  Core-only (run by the driver). -/
namespace TasteCoords

def rabs (x : Rat) : Rat := if x < 0 then -x else x

/-- `np.isclose(a, b)` with numpy's default tolerances: `|a - b| ≤ atol + rtol·|b|` -/
def isclose (a b : Rat) : Bool := decide (rabs (a - b) ≤ (1 : Rat) / 100000000 + (1 : Rat) / 100000 * rabs b)

/-- `grid[k]` with Python's indexing: negative indices count from the end, out of range raises (`none`) -/
def gridAt (lo hi dx : Rat) (n : Nat) (k : Int) : Option Rat :=
  let j : Int := if k < 0 then k + n else k
  if 0 ≤ j ∧ j < n then some (Coords.linspaceAt (lo + dx / 2) (hi - dx / 2) n j.toNat) else none

/-- one direction of one box: `none` = IndexError, `some false` = a bound does not match -/
def axisOK (lo hi dx : Rat) (n : Nat) (i0 i1 : Int) (blo bhi : Rat) : Option Bool := do
  let g0 ← gridAt lo hi dx n i0
  let g1 ← gridAt lo hi dx n i1
  pure (isclose (g0 - dx / 2) blo && isclose (g1 + dx / 2) bhi)

end TasteCoords
