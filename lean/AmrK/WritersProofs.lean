import AmrK.Writers
/-! Probe: colander's data theorem on the validated record-level model (C05 core). -/
namespace Writers
open Col

/-! ### tells / recAt for the concrete record type -/

theorem tellsGo_ge (pos : Nat) (rs : List OutRec) : ∀ o ∈ tellsOf.go pos rs, pos ≤ o := by
  induction rs generalizing pos with
  | nil => intro o h; cases h
  | cons r rs ih =>
    intro o h
    simp only [tellsOf.go, List.mem_cons] at h
    rcases h with h | h
    · omega
    · have := ih _ o h; omega

theorem recAtGo_tells (pos : Nat) (rs : List OutRec) (hpos : ∀ r ∈ rs, 0 < r.size) (j o : Nat)
    (ho : (tellsOf.go pos rs)[j]? = some o) : recAtOf.go o pos rs = rs[j]? := by
  induction rs generalizing pos j with
  | nil => simp [tellsOf.go] at ho
  | cons r rs ih =>
    cases j with
    | zero =>
      simp only [tellsOf.go, List.getElem?_cons_zero, Option.some.injEq] at ho
      simp [recAtOf.go, ho]
    | succ j =>
      simp only [tellsOf.go, List.getElem?_cons_succ] at ho
      have hmem : o ∈ tellsOf.go (pos + r.size) rs := List.mem_of_getElem? ho
      have hge := tellsGo_ge _ rs _ hmem
      have hr := hpos r (by simp)
      have hne : ¬ o = pos := by omega
      simp only [recAtOf.go, hne, if_false, List.getElem?_cons_succ]
      exact ih _ (fun x hx => hpos x (by simp [hx])) j ho

theorem recAtOf_tells (rs : List OutRec) (hpos : ∀ r ∈ rs, 0 < r.size) (j o : Nat)
    (ho : (tellsOf rs)[j]? = some o) : recAtOf rs o = rs[j]? :=
  recAtGo_tells 0 rs hpos j o ho

theorem tellsGo_length (pos : Nat) (rs : List OutRec) : (tellsOf.go pos rs).length = rs.length := by
  induction rs generalizing pos with
  | nil => rfl
  | cons r rs ih => simp [tellsOf.go, ih]

/-! ### scatter over all files -/

theorem scatter_not_mem (m : Nat → Option Nat) (idxs offs : List Nat) (i : Nat) (h : i ∉ idxs) :
    scatter m idxs offs i = m i := by
  unfold scatter
  apply scatter_other
  intro p hp e
  exact h (e ▸ (List.of_mem_zip hp).1)

/-- if every file entry that lists box `i` carries the same index list and the same offsets, the
    re-mapped offset of `i` is the one at its position, whatever the other entries are -/
theorem foldl_scatter (pf : List (String × List Nat × List OutRec)) (m : Nat → Option Nat)
    (I T : List Nat) (i j o : Nat) (hI : I.Nodup) (hj : I[j]? = some i) (ho : T[j]? = some o)
    (hsame : ∀ e ∈ pf, i ∈ e.2.1 → e.2.1 = I ∧ tellsOf e.2.2 = T) :
    (pf.foldl (fun m (e : String × List Nat × List OutRec) => scatter m e.2.1 (tellsOf e.2.2)) m) i
      = if ∃ e ∈ pf, i ∈ e.2.1 then some o else m i := by
  induction pf generalizing m with
  | nil => simp
  | cons e pf ih =>
    simp only [List.foldl_cons]
    rw [ih _ (fun x hx => hsame x (by simp [hx]))]
    by_cases hrest : ∃ e' ∈ pf, i ∈ e'.2.1
    · have : ∃ e' ∈ e :: pf, i ∈ e'.2.1 := by
        obtain ⟨e', h1, h2⟩ := hrest; exact ⟨e', by simp [h1], h2⟩
      simp [hrest, this]
    · simp only [hrest, if_false]
      by_cases he : i ∈ e.2.1
      · obtain ⟨h1, h2⟩ := hsame e (by simp) he
        have : ∃ e' ∈ e :: pf, i ∈ e'.2.1 := ⟨e, by simp, he⟩
        simp only [this, if_true]
        rw [h1, h2]
        exact scatter_get m I T hI j i o hj ho
      · have : ¬ ∃ e' ∈ e :: pf, i ∈ e'.2.1 := by
          rintro ⟨e', h1, h2⟩
          rcases List.mem_cons.mp h1 with rfl | h1
          · exact he h2
          · exact hrest ⟨e', h1, h2⟩
        simp only [this, if_false]
        exact scatter_not_mem m _ _ i he


/-! ### `np.unique` and the per-file index lists -/

theorem mem_insertSorted (s x : String) (l : List String) : x ∈ insertSorted s l ↔ x = s ∨ x ∈ l := by
  induction l with
  | nil => simp [insertSorted]
  | cons y l ih =>
    unfold insertSorted
    split
    · simp
    · split
      · rename_i h; subst h; simp
      · simp only [List.mem_cons, ih]
        constructor
        · rintro (h | h | h) <;> simp [h]
        · rintro (h | h | h) <;> simp [h]

theorem mem_unique (x : String) (l : List String) : x ∈ unique l ↔ x ∈ l := by
  unfold unique
  have key : ∀ (l acc : List String), x ∈ l.foldl (fun acc s => insertSorted s acc) acc ↔ x ∈ acc ∨ x ∈ l := by
    intro l
    induction l with
    | nil => intro acc; simp
    | cons y l ih =>
      intro acc
      simp only [List.foldl_cons, ih, mem_insertSorted, List.mem_cons]
      constructor
      · rintro ((h | h) | h) <;> simp [h]
      · rintro (h | h | h) <;> simp [h]
  simpa using key l []

theorem mem_idxsOf (boxes : List InBox) (f : String) (i : Nat) :
    i ∈ idxsOf boxes f ↔ ∃ b, boxes[i]? = some b ∧ b.file = f := by
  unfold idxsOf
  simp only [List.mem_filter, List.mem_range, beq_iff_eq]
  constructor
  · rintro ⟨hi, h⟩
    cases hb : boxes[i]? with
    | none => simp [hb] at h
    | some b => simp [hb] at h; exact ⟨b, rfl, h⟩
  · rintro ⟨b, hb, hf⟩
    have hi : i < boxes.length := by
      rcases Nat.lt_or_ge i boxes.length with h | h
      · exact h
      · rw [List.getElem?_eq_none h] at hb; cases hb
    exact ⟨hi, by simp [hb, hf]⟩

theorem nodup_idxsOf (boxes : List InBox) (f : String) : (idxsOf boxes f).Nodup := by
  unfold idxsOf
  exact List.Nodup.sublist List.filter_sublist List.nodup_range


/-! ### colander -/

/-- the record colander writes for box `i` -/
def colRec (boxes : List InBox) (nvars : Nat) (kept : List Nat) (i : Nat) : Option OutRec :=
  boxes[i]?.map fun b =>
    { box := i, comps := kept.filterMap (b.comps[·]?),
      size := b.hdrLen - digits nvars + digits kept.length + b.ncells * 8 * kept.length }

def colEntry (boxes : List InBox) (nvars : Nat) (kept : List Nat) (f : String) :
    String × List Nat × List OutRec :=
  (f, idxsOf boxes f, (idxsOf boxes f).filterMap (colRec boxes nvars kept))

theorem colander_eq (boxes : List InBox) (nvars : Nat) (kept : List Nat) :
    colander boxes nvars kept
      = assemble boxes ((unique (boxes.map (·.file))).map (colEntry boxes nvars kept)) := rfl

theorem filterMap_all_some {α β : Type} (f : α → Option β) (g : α → β) (l : List α)
    (h : ∀ x ∈ l, f x = some (g x)) : l.filterMap f = l.map g := by
  induction l with
  | nil => rfl
  | cons x l ih =>
    rw [List.filterMap_cons, h x (by simp), ih (fun y hy => h y (by simp [hy]))]
    rfl

/-- **C05 core.**  In colander's output, the level header entry of every box `i` points at a
    record of the rewritten file of `i` that is box `i` itself and holds exactly the kept
    components of the input box, in the requested order — for every distribution of the
    boxes over binary files and every order of the boxes inside them. -/
theorem colander_data (boxes : List InBox) (nvars : Nat) (kept : List Nat) (i : Nat) (b : InBox)
    (hb : boxes[i]? = some b)
    (hsize : ∀ k r, colRec boxes nvars kept k = some r → 0 < r.size) :
    ∃ ob, (colander boxes nvars kept)[i]? = some ob ∧ ob.file = b.file ∧
      ob.found = some (i, kept.filterMap (b.comps[·]?)) := by
  have hi : i < boxes.length := by
    rcases Nat.lt_or_ge i boxes.length with h | h
    · exact h
    · rw [List.getElem?_eq_none h] at hb; cases hb
  rw [colander_eq]
  unfold assemble
  simp only [List.getElem?_map, List.getElem?_range hi, Option.map_some, hb, Option.getD_some]
  refine ⟨_, rfl, rfl, ?_⟩
  -- names
  let I := idxsOf boxes b.file
  let R := I.filterMap (colRec boxes nvars kept)
  have hmemI : i ∈ I := (mem_idxsOf boxes b.file i).mpr ⟨b, hb, rfl⟩
  obtain ⟨j, hj⟩ := List.getElem?_of_mem hmemI
  -- every index of I has a record
  have hRmap : R = I.map fun k => (⟨k, kept.filterMap (((boxes[k]?.map (·.comps)).getD [])[·]?),
      ((boxes[k]?.map (·.hdrLen)).getD 0) - digits nvars + digits kept.length
        + ((boxes[k]?.map (·.ncells)).getD 0) * 8 * kept.length⟩ : OutRec) := by
    apply filterMap_all_some
    intro k hk
    obtain ⟨bk, hbk, _⟩ := (mem_idxsOf boxes b.file k).mp hk
    simp [colRec, hbk]
  have hRj : R[j]? = some ⟨i, kept.filterMap (b.comps[·]?),
      b.hdrLen - digits nvars + digits kept.length + b.ncells * 8 * kept.length⟩ := by
    rw [hRmap, List.getElem?_map, hj]
    simp [hb]
  have hlenT : (tellsOf R).length = I.length := by
    unfold tellsOf; rw [tellsGo_length, hRmap, List.length_map]
  have hjlt : j < I.length := by
    rcases Nat.lt_or_ge j I.length with h | h
    · exact h
    · rw [List.getElem?_eq_none h] at hj; cases hj
  obtain ⟨o, ho⟩ : ∃ o, (tellsOf R)[j]? = some o := ⟨(tellsOf R)[j]'(by omega), List.getElem?_eq_getElem (by omega)⟩
  have hRpos : ∀ r ∈ R, 0 < r.size := by
    intro r hr
    obtain ⟨k, _, hk⟩ := List.mem_filterMap.mp hr
    exact hsize k r hk
  -- the entry of b.file is in the list and every entry listing i is that entry
  have hfile : b.file ∈ unique (boxes.map (·.file)) :=
    (mem_unique _ _).mpr (List.mem_map.mpr ⟨b, List.mem_of_getElem? hb, rfl⟩)
  have hsame : ∀ e ∈ (unique (boxes.map (·.file))).map (colEntry boxes nvars kept),
      i ∈ e.2.1 → e.2.1 = I ∧ tellsOf e.2.2 = tellsOf R := by
    intro e he hie
    obtain ⟨f, _, rfl⟩ := List.mem_map.mp he
    simp only [colEntry] at hie ⊢
    obtain ⟨b', hb', hf'⟩ := (mem_idxsOf boxes f i).mp hie
    rw [hb] at hb'; cases hb'
    subst hf'
    exact ⟨rfl, rfl⟩
  have hex : ∃ e ∈ (unique (boxes.map (·.file))).map (colEntry boxes nvars kept), i ∈ e.2.1 :=
    ⟨colEntry boxes nvars kept b.file, List.mem_map.mpr ⟨b.file, hfile, rfl⟩, hmemI⟩
  have hmapped := foldl_scatter ((unique (boxes.map (·.file))).map (colEntry boxes nvars kept))
    (fun _ => none) I (tellsOf R) i j o (nodup_idxsOf boxes b.file) hj ho hsame
  simp only [hex, if_true] at hmapped
  -- the file lookup
  have hfind : (((unique (boxes.map (·.file))).map (colEntry boxes nvars kept)).find? (·.1 == b.file))
      = some (colEntry boxes nvars kept b.file) := by
    cases hf : ((unique (boxes.map (·.file))).map (colEntry boxes nvars kept)).find? (·.1 == b.file) with
    | none =>
      have := List.find?_eq_none.mp hf (colEntry boxes nvars kept b.file) (List.mem_map.mpr ⟨b.file, hfile, rfl⟩)
      simp [colEntry] at this
    | some e =>
      have h1 := List.find?_some hf
      obtain ⟨f, _, rfl⟩ := List.mem_map.mp (List.mem_of_find?_eq_some hf)
      simp only [colEntry, beq_iff_eq] at h1
      subst h1; rfl
  simp only [hmapped, Option.getD_some, hfind, Option.map_some, colEntry]
  rw [recAtOf_tells R hRpos j o ho, hRj]
  rfl

end Writers
